import sys,re,subprocess,fcntl
_lk=open('/var/tmp/repo.lock','w'); fcntl.flock(_lk,fcntl.LOCK_EX)
# usage: m1.py file 'old' 'new' ID  -- textual mutant helper
f,old,new,idn=sys.argv[1:5]
p='/repo/'+f
s=open(p).read()
assert s.count(old)>=1, "pattern not found"
open(p,'w').write(s.replace(old,new,1))
try:
    import os
    r=subprocess.run(['/verif/check',idn]+sys.argv[5:],capture_output=True,text=True,cwd='/verif',env=dict(os.environ,VF_LOCK_HELD='1'))
    lines=[l[:250] for l in r.stdout.splitlines() if any(k in l for k in('VIOLATION','KNOWN','INCONCLUSIVE','tier='))]
    print('\n'.join(lines[:6])); print('mutant exit',r.returncode)
finally:
    subprocess.run(['git','-C','/repo','checkout','--','.'])
