#!/usr/bin/env python3
"""Regenerates the table of independently seeded changes in DESIGN.md (between the SEEDED-TABLE markers)
from seeded/*/meta.json."""
import glob
import json
import os
import re

rows = []
for d in sorted(glob.glob("/verif/seeded/*/meta.json")):
    m = json.load(open(d))
    name = os.path.basename(os.path.dirname(d))
    caught = m.get("caught_by", [])
    sigs = []
    for c in caught:
        sigs += m["checks"][c]["violations"][:2]
    first = m.get("first_run")
    if m.get("note_final_recheck") and not caught:
        how = "missed at first; caught after strengthening; NOT caught by the final recheck at quick seed 1: " + m["note_final_recheck"]
    elif first is not None and not first.get("caught_by"):
        how = "missed at first; caught after strengthening: " + m.get("strengthened", "")
    elif first is not None:
        how = "caught (re-run after later changes)"
    else:
        how = "caught as built" if caught else "MISSED"
    needs = m.get("needs_to_manifest", "").replace("|", "/")
    rows.append(f"| {name} | {m['property']} | {needs} | {', '.join(caught) or '-'} | {'; '.join(dict.fromkeys(sigs)) or '-'} | {how} |")
table = "| seeded change | property | needs, in order to manifest | caught by | first signatures | history |\n|---|---|---|---|---|---|\n" + "\n".join(rows) + "\n"
p = "/verif/DESIGN.md"
s = open(p).read()
s = re.sub(r"<!-- SEEDED-TABLE -->.*?<!-- /SEEDED-TABLE -->", lambda _m: "<!-- SEEDED-TABLE -->\n" + table + "<!-- /SEEDED-TABLE -->", s, flags=re.S)
open(p, "w").write(s)
print(len(rows), "rows")
