#!/usr/bin/env python3
"""Validate MANIFEST.json and every evidence file against the harness schemas (run with python3-vt)."""
import json, sys, glob
import jsonschema
ok = True
m = json.load(open('/verif/MANIFEST.json'))
try:
    jsonschema.validate(m, json.load(open('/root/.vp/MANIFEST.schema.json')))
    print('MANIFEST ok,', len(m['checks']), 'checks,', len(m.get('not_applicable', [])), 'not_applicable')
except jsonschema.ValidationError as e:
    ok = False; print('MANIFEST INVALID', e.message)
props = [json.loads(l)['id'] for l in open('/verif/properties.jsonl')]
claimed = [c['property_id'] for c in m['checks']]
na = [c['property_id'] for c in m.get('not_applicable', [])]
for p in props:
    if (p in claimed) == (p in na):
        ok = False; print('property', p, 'must be in exactly one of checks / not_applicable')
es = json.load(open('/root/.vp/EVIDENCE.schema.json'))
for f in sorted(glob.glob('/verif/evidence/*.json')):
    try:
        jsonschema.validate(json.load(open(f)), es); print(f, 'ok')
    except jsonschema.ValidationError as e:
        ok = False; print(f, 'INVALID', e.message)
sys.exit(0 if ok else 1)
