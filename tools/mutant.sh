#!/bin/bash
# usage: tools/mutant.sh <patchfile|-> <ID> [extra check args]   (patch read from stdin when '-')
# Applies a patch to /repo, runs ./check <ID>, always restores /repo. For sensitivity experiments only.
set -u
patch=$1; id=$2; shift 2
cd /repo || exit 2
if [ -n "$(git status --porcelain --untracked-files=no)" ]; then echo "repo not clean"; exit 2; fi
if [ "$patch" = "-" ]; then git apply - ; else git apply "$patch"; fi || { echo "patch failed"; git checkout -- .; exit 2; }
cd /verif && ./check "$id" "$@" | grep -E 'VIOLATION|KNOWN|INCONCLUSIVE|tier=' | cut -c1-260 | head -8
rc=${PIPESTATUS[0]}
git -C /repo checkout -- .
echo "mutant exit=$rc"
