#!/usr/bin/env python3
"""Confirm an independently produced breaking change and file it under /verif/seeded/<name>/.

usage: tools/seeded.py <property> <name> <out-dir> <worktree> [--checks C01,C02] [--needs "..."] [--extra-dev-dep "line"]

1. in the scratch worktree: the patch applies; the repository suite passes with it; the demonstration
   fails with it and passes without it;
2. the patch is applied to /repo, the named checks (default: the property's own) are run, /repo is restored;
3. patch.diff, the demonstration and meta.json (what it breaks, what it needs, what was run, which
   checks caught it) are stored under /verif/seeded/<name>/.
Nothing is ever committed to /repo.
"""
import fcntl
import json
import os
import shutil
import subprocess
import sys


def run(cmd, cwd, env=None, timeout=3600):
    e = dict(os.environ)
    e["CARGO_NET_OFFLINE"] = "true"
    e["VF_LOCK_HELD"] = "1"
    if env:
        e.update(env)
    p = subprocess.run(cmd, cwd=cwd, env=e, shell=isinstance(cmd, str), stdout=subprocess.PIPE, stderr=subprocess.STDOUT, text=True, timeout=timeout)
    return p.returncode, p.stdout


def run_checks(patch, checks, three_way=False):
    # /repo is shared with sweeps and the mutant sweep: one writer at a time
    with open("/var/tmp/repo.lock", "w") as lk:
        fcntl.flock(lk, fcntl.LOCK_EX)
        return run_checks_locked(patch, checks, three_way)


def run_checks_locked(patch, checks, three_way=False):
    st, o = run("git status --porcelain --untracked-files=no", "/repo")
    if o.strip():
        print("/repo is not clean, refusing"); return None
    caught = {}
    try:
        if three_way:
            # repairs made since the change was filed rewrote neighbouring lines: a three-way merge of the
            # patch, kept only if it is free of conflicts and still builds
            rc, o = run(["git", "apply", "--3way", patch], "/repo")
            st, so = run("git status --porcelain --untracked-files=no", "/repo")
            if rc != 0 or any(l[:2] in ("UU", "AA", "DU", "UD") for l in so.splitlines()):
                return "stale"
            rc3, dd = run("git diff HEAD --stat", "/repo")
            if not dd.strip():
                return "stale"
            rc, o = run("cargo check -q --offline -p darling_core 2>&1 | tail -3", "/repo", {"CARGO_TARGET_DIR": "/var/tmp/mutsweep-target", "RUSTFLAGS": "-Awarnings"})
            if "error" in o:
                return "stale"
        else:
            rc, o = run(["git", "apply", patch], "/repo")
            if rc != 0:
                print("patch does not apply to /repo:", o); return None
        for c in checks:
            rc, o = run(["/verif/check", c], "/verif", {"VF_EVIDENCE_DIR": "/verif/work/seeded-evidence", "VF_REPLAY_DIR": "/verif/work/seeded-replays"})
            lines = [l[:300] for l in o.splitlines() if l.startswith("VIOLATION")]
            caught[c] = {"exit": rc, "violations": [l.split("signature=")[1].split(" ::")[0] if "signature=" in l else l for l in lines][:8], "first": lines[0] if lines else ""}
            print(f"check {c}: exit {rc}, {len(lines)} violation lines", "| " + lines[0][:220] if lines else "")
    finally:
        run("git reset -q --hard HEAD", "/repo")
    return caught


def recheck(a):
    """tools/seeded.py --recheck <name> [--checks ..] [--note "what was strengthened"]: run the checks again
    against an already filed change and record the new outcome next to the first one."""
    name = a[0]
    dest = os.path.join("/verif/seeded", name)
    meta = json.load(open(os.path.join(dest, "meta.json")))
    checks = [meta["property"]]
    note = ""
    i = 1
    while i < len(a):
        if a[i] == "--checks":
            checks = a[i + 1].split(","); i += 2
        elif a[i] == "--note":
            note = a[i + 1]; i += 2
        else:
            i += 1
    caught = run_checks(os.path.join(dest, "patch.diff"), checks)
    if caught is None:
        return 2
    if "first_run" not in meta:
        meta["first_run"] = {"checks": meta.get("checks"), "caught_by": meta.get("caught_by")}
    meta["checks"] = caught
    meta["caught_by"] = [c for c, v in caught.items() if v["exit"] == 1]
    if note:
        meta["strengthened"] = note
    with open(os.path.join(dest, "meta.json"), "w") as f:
        json.dump(meta, f, indent=1)
    print(name, "caught_by =", meta["caught_by"])
    return 0


def recheck_all():
    """tools/seeded.py --recheck-all: every filed change whose patch still applies to the current /repo
    is run again against the checks that caught it; prints one line per change and a tally. Changes
    whose code has since been rewritten by a fix no longer apply and are reported as such."""
    import glob
    tally = {"caught": 0, "missed": 0, "stale": 0}
    for mf in sorted(glob.glob("/verif/seeded/*/meta.json")):
        d = os.path.dirname(mf)
        name = os.path.basename(d)
        meta = json.load(open(mf))
        patch = os.path.join(d, "patch.diff")
        rc, o = run(["git", "apply", "--check", patch], "/repo")
        three_way = rc != 0
        checks = meta.get("caught_by") or [meta["property"]]
        caught = run_checks(patch, checks[:1], three_way)
        if caught == "stale":
            tally["stale"] += 1
            print(f"stale   {name} (patch no longer applies, three-way merge conflicts or does not build)")
            continue
        if caught is None:
            print(f"error   {name}")
            continue
        hit = [c for c, v in caught.items() if v["exit"] == 1]
        if hit:
            tally["caught"] += 1
            print(f"caught  {name} by {hit[0]} :: {caught[hit[0]]['violations'][:1]}")
        else:
            # one more try with every check that caught it originally
            caught = run_checks(patch, checks, three_way)
            hit = [c for c, v in (caught or {}).items() if v["exit"] == 1]
            if hit:
                tally["caught"] += 1
                print(f"caught  {name} by {hit[0]}")
            else:
                tally["missed"] += 1
                print(f"MISSED  {name} (checks {checks})")
    print(tally)
    return 0 if tally["missed"] == 0 else 1


def main():
    a = sys.argv[1:]
    if a and a[0] == "--recheck":
        return recheck(a[1:])
    if a and a[0] == "--recheck-all":
        return recheck_all()
    prop, name, out, wt = a[0], a[1], a[2], a[3]
    checks = [prop]
    needs = ""
    devdep = None
    repl = None
    i = 4
    while i < len(a):
        if a[i] == "--checks":
            checks = a[i + 1].split(","); i += 2
        elif a[i] == "--needs":
            needs = a[i + 1]; i += 2
        elif a[i] == "--extra-dev-dep":
            devdep = a[i + 1]; i += 2
        elif a[i] == "--replace-dev-dep":
            repl = a[i + 1].split("=>", 1); i += 2
        else:
            i += 1
    patch = os.path.join(out, "patch.diff")
    demo = os.path.join(out, "demo_test.rs")
    tgt = {"CARGO_TARGET_DIR": os.path.join(wt, "target")}
    meta = {"property": prop, "name": name, "needs_to_manifest": needs, "ran": []}
    # --- 1. confirm in the worktree
    run("git checkout -- . && git clean -fdq tests", wt)
    rc, o = run(["git", "apply", patch], wt)
    if rc != 0:
        print("patch does not apply:", o); return 2
    rc, o = run("cargo test --workspace --offline 2>&1 | grep -E '^test result|FAILED|^error' | sort | uniq -c", wt, tgt)
    suite_ok = "FAILED" not in o and "error" not in o
    meta["ran"].append({"what": "repository suite with the patch", "ok": suite_ok, "tail": o[-600:]})
    print("suite with patch:", "green" if suite_ok else "NOT GREEN")
    shutil.copy(demo, os.path.join(wt, "tests", "seed_demo.rs"))
    if devdep:
        with open(os.path.join(wt, "Cargo.toml")) as f:
            c = f.read()
        c = c.replace("[dev-dependencies]\n", "[dev-dependencies]\n" + devdep + "\n", 1)
        with open(os.path.join(wt, "Cargo.toml"), "w") as f:
            f.write(c)
    if repl:
        with open(os.path.join(wt, "Cargo.toml")) as f:
            c = f.read()
        assert repl[0] in c, "dev-dependency line to replace not found"
        with open(os.path.join(wt, "Cargo.toml"), "w") as f:
            f.write(c.replace(repl[0], repl[1], 1))
    rc_with, o_with = run("cargo test --offline -p darling --test seed_demo 2>&1 | tail -15", wt, tgt)
    demo_fails_with = "FAILED" in o_with or "panicked" in o_with or "could not compile" in o_with or "error[" in o_with
    run(["git", "apply", "-R", patch], wt)
    rc_without, o_without = run("cargo test --offline -p darling --test seed_demo 2>&1 | tail -8", wt, tgt)
    demo_passes_without = "test result: ok" in o_without
    meta["ran"].append({"what": "demonstration with the patch", "fails": demo_fails_with, "tail": o_with[-500:]})
    meta["ran"].append({"what": "demonstration without the patch", "passes": demo_passes_without, "tail": o_without[-300:]})
    print("demo with patch fails:", demo_fails_with, "| demo without patch passes:", demo_passes_without)
    run("git checkout -- . && rm -f tests/seed_demo.rs", wt)
    confirmed = suite_ok and demo_fails_with and demo_passes_without
    meta["confirmed"] = confirmed
    # --- 2. run the checks against /repo with the patch
    caught = run_checks(patch, checks)
    if caught is None:
        return 2
    meta["checks"] = caught
    meta["caught_by"] = [c for c, v in caught.items() if v["exit"] == 1]
    # --- 3. file it
    dest = os.path.join("/verif/seeded", name)
    os.makedirs(dest, exist_ok=True)
    shutil.copy(patch, os.path.join(dest, "patch.diff"))
    shutil.copy(demo, os.path.join(dest, "demo_test.rs"))
    notes = os.path.join(out, "NOTES.md")
    if os.path.exists(notes):
        shutil.copy(notes, os.path.join(dest, "NOTES.md"))
    with open(os.path.join(dest, "meta.json"), "w") as f:
        json.dump(meta, f, indent=1)
    print("filed under", dest, "confirmed =", confirmed, "caught_by =", meta["caught_by"])
    return 0


if __name__ == "__main__":
    sys.exit(main())
