#!/usr/bin/env python3
"""Regenerates DESIGN.md §8.8's tables (between the <!-- MUTSWEEP-TABLE --> markers) from
mutsweep/results.jsonl and mutsweep/survivors.json (the hand-written reading of every survivor:
{"<file>:<op>:<before>": {"class": "...", "why": "..."}}). A survivor without an entry is listed as
"unread" so that it cannot be overlooked.

usage: tools/mutsweep_table.py [--print]"""
import collections
import json
import os
import sys

RES = "/verif/mutsweep/results.jsonl"
SURV = "/verif/mutsweep/survivors.json"
DESIGN = "/verif/DESIGN.md"
B, E = "<!-- MUTSWEEP-TABLE -->", "<!-- /MUTSWEEP-TABLE -->"


def key(r):
    return f"{r['file']}:{r['op']}:{r['before']}"


def main():
    rs = [json.loads(l) for l in open(RES)]
    readings = json.load(open(SURV)) if os.path.exists(SURV) else {}
    out = []
    n = collections.Counter(r["outcome"] for r in rs)
    compiled = sum(v for k, v in n.items() if k != "does-not-compile")
    late = [r for r in rs if r["outcome"] == "caught" and r.get("verified") is True]
    stale = [r for r in rs if isinstance(r.get("verified"), str)]
    out.append(f"{len(rs)} mutants ({n.get('does-not-compile', 0)} do not compile; of the {compiled} that do: "
               f"{n.get('caught', 0)} caught by a registered quick check"
               + (f" - {len(late)} of them only by the harness as strengthened after the sweep (re-run by `--verify-survivors`)" if late else "")
               + f", {n.get('killed-by-repo-suite-only', 0)} killed by the repository's own suite only, "
               f"{n.get('survived', 0)} survived both"
               + (f"; {len(stale)} survivors could not be re-run because a later repair rewrote their line" if stale else "")
               + ").\n")
    if late:
        out.append("Caught only after the strengthenings:\n")
        for r in late:
            after = r["after"] if r["after"] else "(line removed)"
            out.append(f"* `{r['file']}:{r['line']}` {r['op']}: `{r['before'][:100]}` → `{after[:100]}` — now {r['caught_by']} `{r.get('signature', '')}`")
        out.append("")
    by = collections.Counter(r.get("caught_by") for r in rs if r["outcome"] == "caught")
    out.append("| caught by | " + " | ".join(k for k, _ in sorted(by.items())) + " |")
    out.append("|---|" + "---|" * len(by))
    out.append("| mutants | " + " | ".join(str(v) for _, v in sorted(by.items())) + " |\n")
    byop = collections.defaultdict(collections.Counter)
    for r in rs:
        byop[r["op"]][r["outcome"]] += 1
    out.append("| operator | caught | survived | repo suite only | does not compile |")
    out.append("|---|---|---|---|---|")
    for op, c in sorted(byop.items(), key=lambda kv: -sum(kv[1].values())):
        out.append(f"| {op} | {c.get('caught', 0)} | {c.get('survived', 0)} | {c.get('killed-by-repo-suite-only', 0)} | {c.get('does-not-compile', 0)} |")
    out.append("")
    surv = [r for r in rs if r["outcome"] in ("survived", "killed-by-repo-suite-only")]
    classes = collections.defaultdict(list)
    for r in surv:
        rd = readings.get(key(r), {"class": "unread", "why": ""})
        classes[rd["class"]].append((r, rd))
    out.append("| survivors by reading | count |")
    out.append("|---|---|")
    for cl, items in sorted(classes.items(), key=lambda kv: -len(kv[1])):
        out.append(f"| {cl} | {len(items)} |")
    out.append("")
    for cl, items in sorted(classes.items(), key=lambda kv: -len(kv[1])):
        out.append(f"*{cl}*:\n")
        for r, rd in items:
            tag = " (repo suite kills it)" if r["outcome"] != "survived" else ""
            after = r["after"] if r["after"] else "(line removed)"
            out.append(f"* `{r['file']}:{r['line']}` {r['op']}{tag}: `{r['before'][:110]}` → `{after[:110]}`" + (f" — {rd['why']}" if rd["why"] else ""))
        out.append("")
    text = "\n".join(out)
    if "--print" in sys.argv:
        print(text)
        return 0
    s = open(DESIGN).read()
    if B not in s or E not in s:
        print("markers not found in DESIGN.md")
        return 1
    a, b = s.index(B) + len(B), s.index(E)
    open(DESIGN, "w").write(s[:a] + "\n" + text + "\n" + s[b:])
    print(f"table written: {len(rs)} mutants, {len(surv)} survivors, {len(classes.get('unread', []))} unread")
    return 0


if __name__ == "__main__":
    sys.exit(main())
