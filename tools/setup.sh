#!/bin/bash
# Builds every monitor binary offline against /repo's working tree.
set -e
cd /verif/vf
[ -f Cargo.lock ] || cp /repo/Cargo.lock .
export CARGO_NET_OFFLINE=true
cargo build --release --offline --workspace
