#!/bin/bash
# usage: tools/sweep.sh <tier> <seed>...   runs every check at the given seeds, prints one line per run
tier=$1; shift
cd /verif
# /repo must stay untouched while a sweep runs: same lock as tools/seeded.py and tools/mutsweep.py
exec 9>/var/tmp/repo.lock; flock 9
export VF_LOCK_HELD=1
# a sweep never shares scratch space, evidence or replays with interactive runs
export VF_WORK=${VF_WORK:-/var/tmp/vf-work-sweep}
export VF_EVIDENCE_DIR=$VF_WORK/evidence
export VF_REPLAY_DIR=$VF_WORK/replays
mkdir -p "$VF_WORK"
for seed in "$@"; do
  for p in C01 C02 C03 C04 C05 C06 C07 C08 C09 C10 C11 C12 C13 C14 C15 C16 C17 C18 C19 C20; do
    out=$(./check $p --tier $tier --seed $seed 2>&1); rc=$?
    echo "seed=$seed $p rc=$rc $(echo "$out" | grep -E 'VIOLATION|INCONCLUSIVE|KNOWN' | head -3 | cut -c1-300)"
  done
done
