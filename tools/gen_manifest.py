#!/usr/bin/env python3
"""Regenerates /verif/MANIFEST.json from the table below (keeps checks / not_applicable consistent)."""
import json

TECH_MODEL = "runtime monitoring: randomized workloads executed on the real code, judged online by an executable reference model"

CLAIMS = {
    "C04": dict(engine="direct",
                text="Held on N random operation histories over real darling::Error values, each compared with a model tree after every few steps (count, Display, flatten order and paths, idempotence, into_iter, syn::Error conversion, write_errors).",
                note="Trusts syn::Error iteration / into_compile_error and the 60-line model tree; says nothing about histories not generated.",
                technique="runtime monitoring: randomized operation histories checked online against an executable reference model"),
    "C05": dict(engine="direct",
                text="Held on N random accumulator histories: every return value and every scope-exit panic compared with a sequential model; drop-during-unwind histories run in a child process whose abnormal exit is the violation.",
                note="Trusts catch_unwind and process exit status as observations.",
                technique="runtime monitoring: history checking against a sequential model, child-process abort detection"),
    "C06": dict(engine="direct",
                text="Held on N generated DeriveInput items (all data shapes, generics, hostile #[darling ...] bodies on container / variant / field positions) x 6 derives, each run in-process under catch_unwind with its output parsed as items: exactly one impl of the trait or >=1 compile_error!, never both, never nothing, never a panic. A second part plants every malformed option value (wrong literal kind / meta form / missing value) alone in clean declarations: the answer is an impl or diagnostics of which one is spanned inside the option's own tokens.",
                note="The derive functions are called through darling_core::derive::*, which is all the proc-macro shim does after parsing.",
                technique="runtime monitoring: grammar-based hostile input generation, panic and output-shape monitor around every derive call"),
    "C10": dict(engine="direct",
                text="Held on the enumerated sub-space (all ordered singles/pairs/triples of field-option spellings x attribute splits x 6 derives; all variant-option pairs; all container-option pairs per trait and body) plus N random declarations with 0..4 rule violations: the documented rule set is evaluated on the declaration data and compared with the derive's output (impl iff no rule violated; otherwise only diagnostics, each demanded rule covered at its tokens, no diagnostic elsewhere).",
                note="Rule loci are byte ranges recorded while rendering the declaration; attribution is by span containment, never by message text. from_ident+default, zero-field tuple bodies and skipped multi-field tuple variants are outside the stated rules and not generated.",
                technique="runtime monitoring: generated declarations judged by an independent executable rule set, span-based attribution of diagnostics"),
    "C11": dict(engine="direct",
                text="Held on the exhaustive sub-space (24 integer targets x [-70000,70000] x quoted/unquoted) plus N random literals (radix 2/8/10/16, underscores, suffixes, 1..60 digits, type boundaries +-2, floats, bool/char/string forms) converted by all 30 scalar targets; reference is str::parse::<T> of the denoted value known to the generator; errors must be spanned inside the item.",
                note="Trusts Rust's str::parse as the standard parsing the property names and syn's lexer for delivering the literal; items are classified by the syn::Expr variant darling is handed."),
    "C14": dict(engine="direct",
                text="Held on N random item lists converted by all 35 map instantiations; success, entries, leaf count and per-item leaf attribution compared with a model (re-implemented key conversion, differential value acceptance); Hash/BTree agreement per input.",
                note="Value acceptance is taken from V::from_meta on the same item (C11/C13 decide those conversions)."),
    "C12": dict(engine="direct",
                text="Held on 1430 wrapper types (10 wrappers, all 100 two-level compositions, 13 inner targets) x N random meta items: each outcome compared with a compositional model applied to the inner type's own outcome on the same item; SpannedValue range, WithOriginal copy, from_none, Flag and IdentString checked.",
                note="Differential: the inner type's observed outcome is the reference.",
                technique="runtime monitoring: differential execution (wrapper vs wrapped conversion on the same input) with a compositional model"),
    "C13": dict(engine="direct",
                text="Held on N random fragments from 22 grammar families, each fed to all 63 syntax-valued targets in bare / quoted / invisible-group / list / word spelling; expected tokens come from the expression darling is handed or from syn::parse_str::<T> of the string contents; bare/quoted agreement and spanned rejections checked.",
                note="syn::parse_str::<T> is taken as the grammar of T; token comparison ignores spacing and invisible groups.",
                technique="runtime monitoring: differential execution against syn's own parser on generated source fragments"),
    "C15": dict(engine="direct",
                text="Routing: exhaustive table of 128 probe implementers x 65 item forms x 3 hook return modes against a routing model. Splitting: N random nested lists whose item split is known by construction, print/parse identity, and single-token mutations judged by an independent token-tree recogniser.",
                note="Expression validity is delegated to syn::parse2::<Expr>; keyword item names other than crate/self/super are not generated."),
    "C19": dict(engine="direct",
                text="Usage: held on N constructed types with every identifier / lifetime planted at a labelled use / declaration-only / non-use position, random query sets, both purposes, and collections (= union of members). Bounds: held on N generic receivers x 6 derives whose emitted impl block is parsed: parameters, own bounds, where-clause and self type unchanged, FromMeta bound on exactly the declared params used by parsed fields.",
                note="Expected answers come from construction, never from analysing the type; the emitted impl is parsed with syn."),
}

PENDING = {}

CORPUS_NOTE = "Trusts the reference interpreter (vf/corpus/src/interp.rs, written from the documentation and Appendix A of DESIGN.md, never reading darling's output) and rustc; programs outside the closed field-type set {bool,u8,i64,String,char,Option,Vec(multiple),HashMap<String,_>,nested struct/enum/boxed receivers} are not generated."
CORPUS_TECH = "runtime monitoring: generated receiver programs compiled against the working tree and driven over a line protocol; replies judged online by an executable reference interpreter"
CLAIMS.update({
    "C01": dict(engine="corpus", text="Held on K generated receiver programs (all six traits, the derive option space, nesting to depth 2-3) x N mistake-free inputs each: the dumped value equals the reference interpreter's value field by field; every value source (defaults, from_none, from_word, from_ident, with, map, and_then, container transforms) is tagged so a wrong source is visible.", note=CORPUS_NOTE, technique=CORPUS_TECH),
    "C02": dict(engine="corpus", text="Held on K programs x N inputs with 0..8 injected mistakes at any depth (incl. maps, enum variants, struct variants, flatten members, several attributes): Ok iff no mistake, len() equals the predicted number of leaves, and observed leaves correspond one-to-one to predicted ones on (path, kind family, named item).", note=CORPUS_NOTE, technique=CORPUS_TECH),
    "C03": dict(engine="direct+corpus", text="Algebra: random with_span/at/multiple/flatten histories keep the first span, flatten keeps or inherits spans, diagnostics carry them. Keyed lists: every leaf about an item of a HashMap / BTreeMap list (repeated key, bad key, bad value, bare literal) is spanned inside that item. Corpus: every matched error leaf's span lies inside the predicted item / value / name / array-element byte range (a leaf whose location path is wrong is still judged by kind); unspanned only where nothing encloses and then the diagnostic renders the path.", note=CORPUS_NOTE + " Spans are byte ranges of proc-macro2's fallback source map (span-locations).", technique=CORPUS_TECH + "; plus model-checked operation histories on Error values"),
    "C07": dict(engine="direct+corpus", text="Built-ins: 100 hand-written FromMeta targets x hostile meta items (token soup, 44-digit integers, 1e999, 120-deep nesting, every literal kind) under catch_unwind. Corpus: four corpora (general, element-level with all forward_attrs forms incl. the empty list and no attributes(..), enum grid, magic fields + supports + body receivers) x generated inputs and two token-level hostile mutations of each (deleted / duplicated / replaced tokens, other delimiters, deep nesting, unions, empty enums): every reply is ok or err; a panic reply or a dead driver process is the violation.", note=CORPUS_NOTE + " A panic is observed through catch_unwind in the driver / harness and through the driver's exit status.", technique="runtime monitoring: panic / abort monitor around every parsing entry point under hostile generated workloads"),
    "C16": dict(engine="direct+corpus", text="API: random structs / enums / unions through ast::Fields, ast::Data, ast::Generics and the library's own implementers mirror the input and re-print the fields. Corpus: K receivers declaring random subsets of magic fields (generics plain / SpannedValue / WithOriginal / Result, data plain or with-converter, generated FromVariant / FromField body receivers) x structured input elements (4 struct styles x 0..6 fields, enums of 0..6 mixed variants with discriminants, unions, generics, visibilities): every magic field equals the corresponding part of the input token-for-token, body entries in order, failures exactly as predicted.", note=CORPUS_NOTE, technique=CORPUS_TECH),
    "C18": dict(engine="direct+corpus", text="API: all 2^4 runtime shape sets x shapes x bodies x every AsShape implementor (exhaustive). Corpus: receivers with random supports(..) word sets (FromDeriveInput and FromVariant) x all body shapes incl. enums with mixed variants and unions: accept / one error per non-conforming variant / error (never a crash) on unions, as the documented table says.", note=CORPUS_NOTE, technique=CORPUS_TECH + "; exhaustive table check of the stand-alone API"),
    "C20": dict(engine="corpus", text="Held on K accepted receiver declarations with hostile names (option words, generated-local names, raw identifiers, prelude-named variants), generics, closures and every option combination of the other corpora, emitted into crates whose only dependency is darling and compiled by rustc: zero errors. The same emitter's other corpora (C01..C18, thousands of programs per thorough run) compile too.", note="rustc is the oracle; a compile error is mapped to the receiver by line. Generator legality (Appendix B of DESIGN.md) is what keeps a compile failure from being the generator's fault.", technique="runtime monitoring of the compiler: generated programs built against the working tree, rustc diagnostics as the observed events"),
    "C08": dict(engine="corpus", text="Held on K element-level receivers (5 traits, 0..3 attribute names, forward_attrs absent/bare/list/empty, attrs plain or with-converter) x item sequences x 2..7 partitions into attributes with empty / bare / foreign attributes interspersed: every partition gives the reply of the single-attribute form, equals the interpreter's value (incl. the forwarded attributes token-for-token in order).", note=CORPUS_NOTE, technique=CORPUS_TECH + "; metamorphic comparison across partitions"),
    "C09": dict(engine="corpus", text="Held on K enum receivers x the full grid of (every variant name + near-miss, skipped, Rust-spelled and unknown names) x 19 forms (string, word, name-value of each literal kind, list with 0..3 items, literal item, non-literal expression, direct from_string / from_word / from_none): value or errors equal the interpreter's selection rule.", note=CORPUS_NOTE, technique=CORPUS_TECH),
    "C17": dict(engine="direct+corpus", text="API: random names / candidate lists against an independent argmax over Jaro-Winkler with the 0.8 threshold, sibling alternates at the origin / after at() / on bundles. Corpus: every unknown-name leaf's suggestion is a maximal candidate among the names valid at that position (skipped / flatten members excluded, parent names only for names the flatten member received directly), the suggested name re-sent in place is accepted, and a corpus built without the `suggestions` feature shows the same errors with no suggestion.", note=CORPUS_NOTE + " strsim::jaro_winkler is third-party and is the metric.", technique=CORPUS_TECH + "; feature-off configuration rebuilt and compared"),
})

ENGINES = [
    {"name": "direct", "path": "vf/direct", "kind_free_text": "E1/E2: in-process runtime monitors over darling's library API and derive functions with model-based / differential oracles, 16 seeded workers"},
    {"name": "corpus", "path": "vf/corpus", "kind_free_text": "E3: generator of receiver crates (programs), compiled against /repo, driven over stdin/stdout by a monitor holding the specs and a reference interpreter"},
]


def main():
    props = [json.loads(l) for l in open('/verif/properties.jsonl')]
    checks, na = [], []
    for p in props:
        pid = p['id']
        if pid in CLAIMS:
            c = CLAIMS[pid]
            checks.append({
                "property_id": pid,
                "quick_cmd": f"./check {pid} --tier quick",
                "thorough_cmd": f"./check {pid} --tier thorough",
                "evidence_file": f"/verif/evidence/{pid}.json",
                "replay_cmd_template": f"./check {pid} --replay {{path}}",
                "engine": c["engine"],
                "level_claimed": {"category": c.get("category", "exploration"), "text": c["text"], "design_ref": f"DESIGN.md §2 {pid}"},
                "level_note": c["note"],
                "technique": c.get("technique", TECH_MODEL),
            })
        else:
            na.append({"property_id": pid, "reason": PENDING.get(pid, f"monitor not built yet (planned, DESIGN.md §2 {pid}); nothing is claimed for it until the check exists and is silent on the unchanged tree")})
    engines = []
    for e in ENGINES:
        e = dict(e)
        e["serves_properties"] = [c["property_id"] for c in checks if e["name"] in CLAIMS[c["property_id"]]["engine"].split("+")]
        engines.append(e)
    m = {
        "version": 1,
        "setup_cmd": "/verif/tools/setup.sh",
        "hooks": {
            "guard": "--cfg darling_verif",
            "enable": "no hooks are needed: every monitor observes darling at its public API boundary (return values, Err values, emitted tokens, rustc / process exit status); the guard name is reserved and unused",
            "baseline_off_cmd": "/verif/tools/repo_tests.sh",
            "source_commits": [],
            "add_only": True,
        },
        "engines": engines,
        "checks": checks,
        "not_applicable": na,
        "notes": "All checks: ./check <ID> --tier quick|thorough, VERIF_SEED / --seed honoured, exit 0 held / 1 VIOLATION / 2 INCONCLUSIVE. Genuine defects repaired in /repo by fix: commits are listed in /verif/known_findings.json.",
    }
    json.dump(m, open('/verif/MANIFEST.json', 'w'), indent=1)
    print("wrote MANIFEST.json:", len(checks), "checks,", len(na), "not_applicable")


if __name__ == "__main__":
    main()
