#!/usr/bin/env python3
"""For every repaired finding in known_findings.json: take the repair out again (reverse patch of its
`fix:` commit, applied to /repo under the lock, never committed), run the finding's check and expect
it to report a violation again; /repo is restored afterwards. A reverse patch that no longer applies
(later repairs rewrote the same lines) is reported as stale.

usage: tools/fix_regress.py [commit-prefix ...]"""
import fcntl
import json
import os
import subprocess
import sys


def sh(cmd, cwd=None, env=None):
    e = dict(os.environ)
    e["CARGO_NET_OFFLINE"] = "true"
    e["VF_LOCK_HELD"] = "1"
    if env:
        e.update(env)
    p = subprocess.run(cmd, cwd=cwd, env=e, shell=isinstance(cmd, str), stdout=subprocess.PIPE, stderr=subprocess.STDOUT, text=True)
    return p.returncode, p.stdout


def main():
    only = sys.argv[1:]
    d = json.load(open("/verif/known_findings.json"))
    tally = {"fires-again": 0, "SILENT": 0, "stale": 0}
    env = {"VF_EVIDENCE_DIR": "/verif/work/seeded-evidence", "VF_REPLAY_DIR": "/verif/work/seeded-replays"}
    seen = set()
    for f in d["findings"]:
        c = f.get("commit")
        if f.get("status") != "fixed" or not c or (only and not any(c.startswith(o) for o in only)):
            continue
        key = (c, f["property"])
        if key in seen:
            continue
        seen.add(key)
        rc, rev = sh(["git", "show", "-R", "--format=", c, "--", "core/src", "macro/src", "src"], "/repo")
        patch = f"/var/tmp/fixrev-{c}.diff"
        open(patch, "w").write(rev)
        with open("/var/tmp/repo.lock", "w") as lk:
            fcntl.flock(lk, fcntl.LOCK_EX)
            rc, o = sh("git status --porcelain --untracked-files=no", "/repo")
            if o.strip():
                print("/repo is not clean, stopping")
                return 2
            rc, o = sh(["git", "apply", "--check", patch], "/repo")
            three_way = rc != 0
            try:
                if three_way:
                    # later repairs rewrote neighbouring lines: let git merge the reversal three-way; a
                    # conflict, or a result that does not build, is what "stale" means
                    rc, o = sh(["git", "apply", "--3way", patch], "/repo")
                    rc2, st = sh("git status --porcelain --untracked-files=no", "/repo")
                    if rc != 0 or any(l[:2] in ("UU", "AA", "DU", "UD") for l in st.splitlines()):
                        tally["stale"] += 1
                        print(f"stale        {c} {f['property']} (reverse patch no longer applies, three-way merge conflicts)")
                        continue
                    rc3, dd = sh("git diff HEAD --stat", "/repo")
                    if not dd.strip():
                        tally["stale"] += 1
                        print(f"stale        {c} {f['property']} (the lines of this repair were rewritten by a later one: the merged reversal changes nothing)")
                        continue
                    rc, o = sh("cargo check -q --offline -p darling_core 2>&1 | tail -3", "/repo", {"CARGO_TARGET_DIR": "/var/tmp/mutsweep-target", "RUSTFLAGS": "-Awarnings"})
                    if "error" in o:
                        tally["stale"] += 1
                        print(f"stale        {c} {f['property']} (three-way reversal does not build)")
                        continue
                else:
                    sh(["git", "apply", patch], "/repo")
                rc, o = sh(["/verif/check", f["property"]], "/verif", env)
                vl = [l for l in o.splitlines() if l.startswith("VIOLATION")]
                sigs = sorted({l.split("signature=")[1].split(" ::")[0] for l in vl if "signature=" in l})
            finally:
                sh("git reset -q --hard HEAD", "/repo")
        if rc == 1 and vl:
            tally["fires-again"] += 1
            same = f["signature"] in sigs
            print(f"fires-again  {c} {f['property']} {'same signature' if same else 'signatures ' + str(sigs[:3])}{' (three-way reversal)' if three_way else ''}")
        else:
            tally["SILENT"] += 1
            print(f"SILENT       {c} {f['property']} exit {rc}: {o.strip().splitlines()[-1][:160] if o.strip() else ''}")
    print(tally)
    return 0 if tally["SILENT"] == 0 else 1


if __name__ == "__main__":
    sys.exit(main())
