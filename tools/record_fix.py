#!/usr/bin/env python3
"""usage: tools/record_fix.py <Fnn> <property> <signature> <what failed> <found how>
Records /repo's HEAD commit (a `fix:` commit) in known_findings.json and in DESIGN.md's table of repaired defects."""
import json, subprocess, sys
fid, prop, sig, what, how = sys.argv[1:6]
h = subprocess.run("git -C /repo log --format=%h -1", shell=True, capture_output=True, text=True).stdout.strip()
subj = subprocess.run("git -C /repo log --format=%s -1", shell=True, capture_output=True, text=True).stdout.strip()
assert subj.startswith("fix:"), subj
p = '/verif/known_findings.json'
d = json.load(open(p))
d['findings'].append({"property": prop, "status": "fixed", "signature": sig, "commit": h, "what": f"fixed: property={prop} {h} {what} ({fid})"})
json.dump(d, open(p, 'w'), indent=1)
s = open('/verif/DESIGN.md').read()
marker = "\n\n**Recorded, not repaired (status `known`"
row = f"\n| {fid} | {prop} | {what}. {how} | {subj[5:]} |"
assert marker in s
s = s.replace(marker, row + marker, 1)
open('/verif/DESIGN.md', 'w').write(s)
print(h, subj)
