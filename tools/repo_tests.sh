#!/bin/bash
# Runs the repository's own test suite (guard off: no --cfg darling_verif) and summarises it.
cd /repo || exit 2
export CARGO_NET_OFFLINE=true
out=$(cargo test --workspace --no-fail-fast --offline 2>&1)
rc=$?
echo "$out" | grep -E '^test result' | awk '{p+=$4; f+=$6; i+=$8} END{printf "repo tests: passed=%d failed=%d ignored=%d\n", p, f, i}'
echo "$out" | grep -E '^test .* FAILED|^error' | head -20
exit $rc
