#!/usr/bin/env python3
"""Systematic sensitivity measurement: syntactic mutants of darling_core run against the quick checks.

usage: tools/mutsweep.py [--seed N] [--count N] [--files glob,glob] [--out FILE] [--only-op OP]

For each sampled mutant (one token-level change in core/src, outside test modules and comments):
  1. applied to /repo (under the /var/tmp/repo.lock lock, restored afterwards whatever happens);
  2. `cargo check -p darling_core`: mutants that do not compile are dropped;
  3. the quick checks are run in an order chosen by the mutated file, stopping at the first one
     that exits 1 with a VIOLATION line ("caught", with its first signature);
  4. a mutant no check catches is run against the repository's own suite: killed there means it is
     not a change the brief asks about; surviving both is recorded as "survived" for inspection
     (an equivalent mutant, or a gap).
Results are appended as JSON lines to --out (default /verif/mutsweep/results.jsonl).
Nothing is ever committed to /repo.
"""
import fcntl
import glob
import json
import os
import random
import re
import subprocess
import sys
import time

# VF_REPO / VF_REPO_LOCK: a frozen clone of /repo (with VF_CHECK pointing at a copy of the harness built
# against that clone) makes a sweep independent of work going on in /repo and /verif
REPO = os.environ.get("VF_REPO", "/repo")
LOCK = os.environ.get("VF_REPO_LOCK", "/var/tmp/repo.lock")
# the checks a sweep runs: /verif/check, or a frozen copy of it and of vf/ (VF_CHECK=/var/tmp/verif-snap/check)
# so that a sweep lasting hours is not disturbed by work on the harness
CHECK = os.environ.get("VF_CHECK", "/verif/check")
ALL = ["C%02d" % i for i in range(1, 21)]

ORDER = [
    ("core/src/error/", ["C04", "C05", "C03", "C02", "C17", "C14", "C15"]),
    ("core/src/from_meta.rs", ["C11", "C12", "C14", "C13", "C15", "C07", "C09", "C01"]),
    ("core/src/codegen/", ["C01", "C09", "C08", "C16", "C02", "C03", "C17", "C20", "C19", "C06", "C18"]),
    ("core/src/options/", ["C10", "C06", "C01", "C18", "C09", "C08", "C16", "C20"]),
    ("core/src/usage/", ["C19", "C20"]),
    ("core/src/util/", ["C12", "C13", "C18", "C16", "C08", "C15", "C10", "C06"]),
    ("core/src/ast/", ["C16", "C18", "C15", "C02"]),
    ("core/src/derive.rs", ["C06", "C10"]),
]

# (name, regex, replacement) — applied to one match on one line
OPS = [
    ("eq->ne", r"(?<![=!<>])==(?!=)", "!="),
    ("ne->eq", r"!=(?!=)", "=="),
    ("and->or", r"&&", "||"),
    ("or->and", r"(?<!\|)\|\|(?!\|)", "&&"),
    ("drop-not", r"(?<=\bif )!(?=[a-zA-Z_(])", ""),
    ("some<->none", r"\.is_some\(\)", ".is_none()"),
    ("none<->some", r"\.is_none\(\)", ".is_some()"),
    ("ok<->err", r"\.is_ok\(\)", ".is_err()"),
    ("empty->nonempty", r"(\b[\w.()]+)\.is_empty\(\)", r"!\1.is_empty()"),
    ("true->false", r"\btrue\b", "false"),
    ("false->true", r"\bfalse\b", "true"),
    ("drop-with_span", r"\.with_span\((?:[^()]|\([^()]*\))*\)", ""),
    ("drop-at", r"\.at(?:_path)?\((?:[^()]|\([^()]*\))*\)", ""),
    ("continue->break", r"\bcontinue;", "break;"),
    ("break->continue", r"\bbreak;", "continue;"),
    ("gt->ge", r"(?<= )>(?= \d)", ">="),
    ("lt->le", r"(?<= )<(?= \d)", "<="),
    ("ge->gt", r"(?<= )>=(?= )", ">"),
    ("le->lt", r"(?<= )<=(?= )", "<"),
    ("one->zero", r"(?<=[ (])1(?=[;,)\]]| )", "0"),
    ("zero->one", r"(?<=[ (])0(?=[;,)\]]| )", "1"),
    ("plus1-drop", r" \+ 1\b", ""),
    ("drop-rev", r"\.rev\(\)", ""),
    ("first->last", r"\.first\(\)", ".last()"),
    ("drop-push-stmt", r"^\s*[\w.]+\.push\((?:[^()]|\((?:[^()]|\([^()]*\))*\))*\);\s*$", ""),
    ("drop-extend-stmt", r"^\s*[\w.]+\.extend\((?:[^()]|\((?:[^()]|\([^()]*\))*\))*\);\s*$", ""),
    ("drop-handle-stmt", r"^\s*[\w.]+\.handle\((?:[^()]|\((?:[^()]|\([^()]*\))*\))*\);\s*$", ""),
    ("drop-question-return", r"^\s*return Err\(.*\);\s*$", ""),
    ("unwrap_or-flip", r"unwrap_or\(false\)", "unwrap_or(true)"),
    ("map_err-drop", r"\.map_err\((?:[^()]|\((?:[^()]|\([^()]*\))*\))*\)", ""),
    ("any->all", r"\.any\(", ".all("),
    ("all->any", r"\.all\(", ".any("),
    ("min->max", r"\.min\(", ".max("),
    ("filter-drop", r"\.filter\(\|[^|]*\| [^()]*(?:\([^()]*\))?[^()]*\)", ""),
]


def sh(cmd, cwd=None, env=None, timeout=3600):
    e = dict(os.environ)
    e["CARGO_NET_OFFLINE"] = "true"
    if env:
        e.update(env)
    p = subprocess.run(cmd, cwd=cwd, env=e, shell=isinstance(cmd, str), stdout=subprocess.PIPE, stderr=subprocess.STDOUT, text=True, timeout=timeout)
    return p.returncode, p.stdout


def candidates(files):
    out = []
    for f in files:
        rel = os.path.relpath(f, REPO)
        lines = open(f).read().split("\n")
        in_tests = False
        for i, line in enumerate(lines):
            st = line.strip()
            if st.startswith("#[cfg(test)]"):
                in_tests = True
            if in_tests:
                continue
            if st.startswith("//") or st.startswith("#[") or st.startswith("#!["):
                continue
            code = line.split("//")[0] if '"' not in line else line
            for name, rx, rep in OPS:
                for m in re.finditer(rx, code):
                    new = code[: m.start()] + m.expand(rep) + code[m.end():]
                    if new != line:
                        out.append({"file": rel, "line": i + 1, "op": name, "before": line.strip()[:160], "after": new.strip()[:160], "_new": new, "_old": line})
    return out


def order_for(rel):
    for prefix, first in ORDER:
        if rel.startswith(prefix):
            return first + [c for c in ALL if c not in first]
    return ALL


def verify(outp, survivors_only=False):
    """--verify: every record filed as caught is run again against the check that caught it, on the
    present (stable) harness and tree; a record that is not caught again is re-run through the whole
    order. Guards against attributions made while the harness itself was being changed."""
    files = sorted(glob.glob(os.path.join(REPO, "core/src/**/*.rs"), recursive=True))
    cands = {}
    for c in candidates(files):
        cands[(c["file"], c["op"], c["before"], c["after"])] = c
    recs = [json.loads(l) for l in open(outp)]
    env = {"VF_LOCK_HELD": "1", "VF_WORK": "/var/tmp/vf-work-mut", "VF_EVIDENCE_DIR": "/var/tmp/vf-work-mut/evidence", "VF_REPLAY_DIR": "/var/tmp/vf-work-mut/replays"}
    changed = 0
    for i, rec in enumerate(recs):
        if rec["outcome"] not in ("caught", "survived", "survived-on-verification") or rec.get("verified"):
            continue
        if survivors_only and rec["outcome"] == "caught":
            continue
        c = cands.get((rec["file"], rec["op"], rec["before"], rec["after"]))
        if c is None:
            rec["verified"] = "stale (line rewritten since)"
            continue
        with open(LOCK, "w") as lk:
            fcntl.flock(lk, fcntl.LOCK_EX)
            path = os.path.join(REPO, c["file"])
            src = open(path).read()
            try:
                lines = src.split("\n")
                lines[c["line"] - 1] = c["_new"]
                open(path, "w").write("\n".join(lines))
                first = rec.get("caught_by")
                order = ([first] if first else []) + [x for x in order_for(c["file"]) if x != first]
                hit = None
                for chk in order:
                    rc, o = sh([CHECK, chk], os.path.dirname(CHECK), env)
                    vl = [l for l in o.splitlines() if l.startswith("VIOLATION")]
                    if rc == 1 and vl:
                        hit = (chk, vl[0].split("signature=")[1].split(" ::")[0] if "signature=" in vl[0] else vl[0][:120])
                        break
            finally:
                open(path, "w").write(src)
                sh("git checkout -- .", REPO)
        if hit is None:
            if rec["outcome"] == "caught":
                changed += 1
            rec["outcome"] = "survived"
            rec.pop("caught_by", None)
            rec.pop("signature", None)
            rec["verified"] = True
        else:
            if hit[0] != rec.get("caught_by"):
                changed += 1
            rec["outcome"] = "caught"
            rec["caught_by"], rec["signature"] = hit
            rec["verified"] = True
        print(f"[{i}] {rec['outcome']:26} {rec.get('caught_by', '-'):4} {rec['file']}:{rec['line']} {rec['op']}", flush=True)
        with open(outp, "w") as f:
            f.write("".join(json.dumps(r) + "\n" for r in recs))
    print("attributions changed:", changed)
    return 0


def main():
    a = sys.argv[1:]
    if a and a[0] == "--verify":
        return verify(a[1] if len(a) > 1 else "/verif/mutsweep/results.jsonl")
    if a and a[0] == "--verify-survivors":
        return verify(a[1] if len(a) > 1 else "/verif/mutsweep/results.jsonl", survivors_only=True)
    seed, count, pats, outp, only = 1, 50, ["core/src/**/*.rs"], "/verif/mutsweep/results.jsonl", None
    i = 0
    while i < len(a):
        if a[i] == "--seed":
            seed = int(a[i + 1])
        elif a[i] == "--count":
            count = int(a[i + 1])
        elif a[i] == "--files":
            pats = a[i + 1].split(",")
        elif a[i] == "--out":
            outp = a[i + 1]
        elif a[i] == "--only-op":
            only = a[i + 1]
        i += 2
    files = sorted({f for p in pats for f in glob.glob(os.path.join(REPO, p), recursive=True)})
    cands = candidates(files)
    if only:
        cands = [c for c in cands if c["op"] == only]
    done = set()
    if os.path.exists(outp):
        for l in open(outp):
            d = json.loads(l)
            done.add((d["file"], d["line"], d["op"], d["after"]))
    rng = random.Random(seed)
    rng.shuffle(cands)
    os.makedirs(os.path.dirname(outp), exist_ok=True)
    env = {"VF_LOCK_HELD": "1", "VF_WORK": "/var/tmp/vf-work-mut", "VF_EVIDENCE_DIR": "/var/tmp/vf-work-mut/evidence", "VF_REPLAY_DIR": "/var/tmp/vf-work-mut/replays"}
    os.makedirs("/var/tmp/vf-work-mut", exist_ok=True)
    n = 0
    print(f"{len(cands)} candidate mutants in {len(files)} files; running up to {count}", flush=True)
    for c in cands:
        if n >= count:
            break
        key = (c["file"], c["line"], c["op"], c["after"])
        if key in done:
            continue
        done.add(key)
        n += 1
        rec = {k: v for k, v in c.items() if not k.startswith("_")}
        t0 = time.time()
        with open(LOCK, "w") as lk:
            fcntl.flock(lk, fcntl.LOCK_EX)
            rc, o = sh("git status --porcelain --untracked-files=no", REPO)
            if o.strip():
                print("/repo is not clean, stopping")
                return 2
            path = os.path.join(REPO, c["file"])
            src = open(path).read()
            if c["line"] > len(src.split("\n")) or src.split("\n")[c["line"] - 1] != c["_old"]:
                # /repo moved on (a repair was committed) since the candidates were listed
                print(f"[{n}] stale candidate skipped {c['file']}:{c['line']}", flush=True)
                n -= 1
                continue
            try:
                lines = src.split("\n")
                lines[c["line"] - 1] = c["_new"]
                open(path, "w").write("\n".join(lines))
                rc, o = sh("cargo check -q --offline -p darling_core 2>&1 | tail -3", REPO, {"CARGO_TARGET_DIR": "/var/tmp/mutsweep-target", "RUSTFLAGS": "-Awarnings"})
                if "error" in o:
                    rec["outcome"] = "does-not-compile"
                else:
                    rec["outcome"] = "survived-checks"
                    for chk in order_for(c["file"]):
                        rc, o = sh([CHECK, chk], os.path.dirname(CHECK), env)
                        vl = [l for l in o.splitlines() if l.startswith("VIOLATION")]
                        if rc == 1 and vl:
                            rec["outcome"] = "caught"
                            rec["caught_by"] = chk
                            rec["signature"] = vl[0].split("signature=")[1].split(" ::")[0] if "signature=" in vl[0] else vl[0][:120]
                            break
                        if rc not in (0, 1):
                            rec.setdefault("inconclusive", []).append(chk)
                    if rec["outcome"] == "survived-checks":
                        rc, o = sh("cargo test --workspace --offline 2>&1 | grep -E '^test result|FAILED|^error' | sort | uniq -c | tail -8", REPO, {"CARGO_TARGET_DIR": "/var/tmp/mutsweep-target"})
                        if "FAILED" in o or "error" in o or "test result: ok" not in o:
                            rec["outcome"] = "killed-by-repo-suite-only"
                        else:
                            rec["outcome"] = "survived"
            finally:
                open(path, "w").write(src)
                sh("git checkout -- .", REPO)
        rec["seconds"] = round(time.time() - t0, 1)
        with open(outp, "a") as f:
            f.write(json.dumps(rec) + "\n")
        print(f"[{n}] {rec['outcome']:26} {rec.get('caught_by', '-'):4} {c['file']}:{c['line']} {c['op']} :: {c['after'][:90]}", flush=True)
    return 0


if __name__ == "__main__":
    sys.exit(main())
