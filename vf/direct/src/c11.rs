//! C11: scalar conversions are exact. The oracle never consults darling or syn's number
//! handling: the generator knows the denoted value (sign + decimal digits) of every literal it
//! spells, and `str::parse::<T>` of that canonical spelling (or of the quoted contents) is
//! the reference the property names.

use darling::{Error, FromMeta};
use proc_macro2::TokenStream;
use serde_json::json;
use std::num::*;
use std::time::Instant;
use syn::{Expr, Lit, Meta};
use vfcommon::{catch, conclude, fan_out, span_range, Args, Caught, Collector, Outcome, Rng};

#[derive(Clone, Copy, PartialEq, Eq, Debug)]
pub enum Kind {
    Int,
    Float,
    Bool,
    Char,
    Str,
}

pub struct Target {
    pub name: &'static str,
    pub kind: Kind,
    pub conv: fn(&Meta) -> Result<String, Error>,
    /// the literal hook called directly (`T::from_value`), as a hand-written `from_meta` does
    pub conv_value: fn(&syn::Lit) -> Result<String, Error>,
    /// the target type's standard parsing, canonical rendering of the value
    pub std_parse: fn(&str) -> Option<String>,
    pub min: &'static str,
    pub max: &'static str,
}

fn fbits64(v: f64) -> String {
    if v.is_nan() {
        "f:NaN".into()
    } else {
        format!("f:{:016x}", v.to_bits())
    }
}
fn fbits32(v: f32) -> String {
    if v.is_nan() {
        "f:NaN".into()
    } else {
        format!("f:{:08x}", v.to_bits())
    }
}

macro_rules! int_t {
    ($t:ty, $min:expr, $max:expr) => {
        Target {
            name: stringify!($t),
            kind: Kind::Int,
            conv: |m| <$t as FromMeta>::from_meta(m).map(|v| v.to_string()),
            conv_value: |l| <$t as FromMeta>::from_value(l).map(|v| v.to_string()),
            std_parse: |s| s.parse::<$t>().ok().map(|v| v.to_string()),
            min: $min,
            max: $max,
        }
    };
}

pub fn targets() -> Vec<Target> {
    vec![
        int_t!(u8, "0", "255"),
        int_t!(u16, "0", "65535"),
        int_t!(u32, "0", "4294967295"),
        int_t!(u64, "0", "18446744073709551615"),
        int_t!(u128, "0", "340282366920938463463374607431768211455"),
        int_t!(usize, "0", "18446744073709551615"),
        int_t!(i8, "-128", "127"),
        int_t!(i16, "-32768", "32767"),
        int_t!(i32, "-2147483648", "2147483647"),
        int_t!(i64, "-9223372036854775808", "9223372036854775807"),
        int_t!(i128, "-170141183460469231731687303715884105728", "170141183460469231731687303715884105727"),
        int_t!(isize, "-9223372036854775808", "9223372036854775807"),
        int_t!(NonZeroU8, "0", "255"),
        int_t!(NonZeroU16, "0", "65535"),
        int_t!(NonZeroU32, "0", "4294967295"),
        int_t!(NonZeroU64, "0", "18446744073709551615"),
        int_t!(NonZeroU128, "0", "340282366920938463463374607431768211455"),
        int_t!(NonZeroUsize, "0", "18446744073709551615"),
        int_t!(NonZeroI8, "-128", "127"),
        int_t!(NonZeroI16, "-32768", "32767"),
        int_t!(NonZeroI32, "-2147483648", "2147483647"),
        int_t!(NonZeroI64, "-9223372036854775808", "9223372036854775807"),
        int_t!(NonZeroI128, "-170141183460469231731687303715884105728", "170141183460469231731687303715884105727"),
        int_t!(NonZeroIsize, "-9223372036854775808", "9223372036854775807"),
        Target {
            name: "f32",
            kind: Kind::Float,
            conv: |m| <f32 as FromMeta>::from_meta(m).map(fbits32),
            conv_value: |l| <f32 as FromMeta>::from_value(l).map(fbits32),
            std_parse: |s| s.parse::<f32>().ok().map(fbits32),
            min: "",
            max: "",
        },
        Target {
            name: "f64",
            kind: Kind::Float,
            conv: |m| <f64 as FromMeta>::from_meta(m).map(fbits64),
            conv_value: |l| <f64 as FromMeta>::from_value(l).map(fbits64),
            std_parse: |s| s.parse::<f64>().ok().map(fbits64),
            min: "",
            max: "",
        },
        Target {
            name: "bool",
            kind: Kind::Bool,
            conv: |m| <bool as FromMeta>::from_meta(m).map(|v| v.to_string()),
            conv_value: |l| <bool as FromMeta>::from_value(l).map(|v| v.to_string()),
            std_parse: |s| s.parse::<bool>().ok().map(|v| v.to_string()),
            min: "",
            max: "",
        },
        Target {
            name: "char",
            kind: Kind::Char,
            conv: |m| <char as FromMeta>::from_meta(m).map(|v| format!("{:?}", v)),
            conv_value: |l| <char as FromMeta>::from_value(l).map(|v| format!("{:?}", v)),
            std_parse: |s| s.parse::<char>().ok().map(|v| format!("{:?}", v)),
            min: "",
            max: "",
        },
        Target {
            name: "String",
            kind: Kind::Str,
            conv: |m| <String as FromMeta>::from_meta(m).map(|v| format!("{:?}", v)),
            conv_value: |l| <String as FromMeta>::from_value(l).map(|v| format!("{:?}", v)),
            std_parse: |s| Some(format!("{:?}", s)),
            min: "",
            max: "",
        },
        Target {
            name: "PathBuf",
            kind: Kind::Str,
            conv: |m| <std::path::PathBuf as FromMeta>::from_meta(m).map(|v| format!("{:?}", v.to_str().unwrap_or("?"))),
            conv_value: |l| <std::path::PathBuf as FromMeta>::from_value(l).map(|v| format!("{:?}", v.to_str().unwrap_or("?"))),
            std_parse: |s| Some(format!("{:?}", s)),
            min: "",
            max: "",
        },
    ]
}

// ---------- tiny decimal big-number helpers (generator side only) ----------

/// decimal string (no sign) -> digits in `radix`, most significant first
pub fn dec_to_radix(dec: &str, radix: u32, upper: bool) -> String {
    let mut d: Vec<u32> = dec.bytes().map(|b| (b - b'0') as u32).collect();
    let mut out = vec![];
    loop {
        let mut rem = 0u32;
        let mut q = Vec::with_capacity(d.len());
        for &x in &d {
            let cur = rem * 10 + x;
            q.push(cur / radix);
            rem = cur % radix;
        }
        out.push(std::char::from_digit(rem, radix).unwrap());
        let first = q.iter().position(|&x| x != 0);
        match first {
            Some(i) => d = q[i..].to_vec(),
            None => break,
        }
    }
    let s: String = out.iter().rev().collect();
    if upper {
        s.to_uppercase()
    } else {
        s
    }
}

/// add a small signed delta to a signed decimal string, using i128/u128 where it fits and
/// a schoolbook routine otherwise
pub fn dec_add(v: &str, delta: i32) -> String {
    let (neg, mag) = match v.strip_prefix('-') {
        Some(m) => (true, m),
        None => (false, v),
    };
    // schoolbook on magnitude
    let mut d: Vec<i32> = mag.bytes().map(|b| (b - b'0') as i32).collect();
    let eff = if neg { -delta } else { delta };
    // magnitude + eff (eff small); may cross zero
    let small = mag.len() <= 9;
    if small {
        let m: i64 = mag.parse().unwrap();
        let sv = if neg { -m } else { m } + delta as i64;
        return sv.to_string();
    }
    let mut carry = eff;
    let mut i = d.len();
    while carry != 0 && i > 0 {
        i -= 1;
        let cur = d[i] + carry;
        if cur < 0 {
            d[i] = cur + 10;
            carry = -1;
        } else {
            d[i] = cur % 10;
            carry = cur / 10;
        }
    }
    let mut s: String = d.iter().map(|x| std::char::from_digit(*x as u32, 10).unwrap()).collect();
    if carry > 0 {
        s = format!("{carry}{s}");
    }
    let t = s.trim_start_matches('0');
    let t = if t.is_empty() { "0" } else { t };
    if neg && t != "0" {
        format!("-{t}")
    } else {
        t.to_string()
    }
}

const INT_SUFFIXES: [&str; 13] = ["", "u8", "u16", "u32", "u64", "u128", "usize", "i8", "i16", "i32", "i64", "i128", "isize"];

#[derive(Clone, Debug)]
pub struct Spelled {
    pub text: String,
    pub class: String,
}

/// spell an unquoted integer literal denoting sign+decimal `v`
pub fn spell_int(rng: &mut Rng, v: &str, plain: bool) -> Spelled {
    let (neg, mag) = match v.strip_prefix('-') {
        Some(m) => (true, m),
        None => (false, v),
    };
    let radix = if plain { 10 } else { *rng.pick(&[10u32, 10, 2, 8, 16]) };
    let mut digits = dec_to_radix(mag, radix, radix == 16 && rng.coin());
    let mut under = false;
    if !plain && rng.chance(1, 3) {
        let mut s = String::new();
        for (i, ch) in digits.chars().enumerate() {
            if i > 0 && rng.chance(1, 4) {
                s.push('_');
                under = true;
            }
            s.push(ch);
        }
        if rng.chance(1, 6) {
            s.push('_');
            under = true;
        }
        digits = s;
    }
    let prefix = match radix {
        2 => "0b",
        8 => "0o",
        16 => "0x",
        _ => "",
    };
    // (digits followed by `f32` / `f64` and nothing that makes a float are an integer literal with that
    // suffix: `1f32`; after hex digits the same letters are digits)
    let suffix = if plain || rng.chance(2, 3) {
        ""
    } else if radix != 16 && rng.chance(1, 5) {
        *rng.pick(&["f32", "f64", "zz"])
    } else {
        *rng.pick(&INT_SUFFIXES)
    };
    // a hex literal followed by a suffix starting with a hex digit does not exist for ints (u/i only)
    let text = format!("{}{}{}{}", if neg { "-" } else { "" }, prefix, digits, suffix);
    Spelled {
        text,
        class: format!("r{radix}{}{}{}", if under { "_" } else { "" }, if suffix.is_empty() { "" } else { "+suffix" }, if neg { "-" } else { "" }),
    }
}

pub struct Built {
    pub meta: Meta,
    pub item: (usize, usize),
    pub value: Option<(usize, usize)>,
    pub pos: &'static str,
    pub src: String,
}

/// Parse `item_text` as a meta item, stand-alone or as first / middle / last member of a list.
pub fn build_meta(item_text: &str, pos: usize) -> Option<Built> {
    build_meta_grouped(item_text, pos, 0)
}

pub const GROUPINGS: [&str; 5] = ["plain", "G(value)", "sign G(lit)", "G(G(value))", "G(sign G(lit))"];

/// The value of the `idx`-th top-level item of `ts` (everything after its `=`) put into invisible
/// groups, as it arrives when the value was a `macro_rules!` fragment: `$v`, `-$v`, a fragment of
/// a fragment. Token spans are kept, each group takes the span of what it holds.
fn regroup(ts: TokenStream, idx: usize, grouping: u8) -> Option<TokenStream> {
    use proc_macro2::{Delimiter, Group, TokenTree};
    let toks: Vec<TokenTree> = ts.into_iter().collect();
    let mut seg = 0usize;
    let mut start = None;
    let mut end = toks.len();
    for (i, t) in toks.iter().enumerate() {
        if let TokenTree::Punct(p) = t {
            if p.as_char() == ',' {
                if seg == idx && start.is_some() {
                    end = i;
                    break;
                }
                seg += 1;
            } else if p.as_char() == '=' && seg == idx && start.is_none() {
                start = Some(i + 1);
            }
        }
    }
    let start = start?;
    let value = &toks[start..end];
    let (sign, lit) = match value {
        [l @ TokenTree::Literal(_)] => (None, l.clone()),
        [s @ TokenTree::Punct(p), l @ TokenTree::Literal(_)] if p.as_char() == '-' => (Some(s.clone()), l.clone()),
        _ => return None,
    };
    let group = |inner: Vec<TokenTree>| -> TokenTree {
        let span = inner.first().unwrap().span().join(inner.last().unwrap().span()).unwrap_or_else(|| inner.last().unwrap().span());
        let mut g = Group::new(Delimiter::None, inner.into_iter().collect());
        g.set_span(span);
        TokenTree::Group(g)
    };
    let whole: Vec<TokenTree> = sign.iter().cloned().chain(std::iter::once(lit.clone())).collect();
    let signed_group = |lit: TokenTree| -> Vec<TokenTree> { sign.iter().cloned().chain(std::iter::once(group(vec![lit]))).collect() };
    let new_value: Vec<TokenTree> = match grouping {
        1 => vec![group(whole)],
        2 => signed_group(lit),
        3 => vec![group(vec![group(whole)])],
        4 => vec![group(signed_group(lit))],
        _ => return None,
    };
    Some(toks[..start].iter().cloned().chain(new_value).chain(toks[end..].iter().cloned()).collect())
}

/// The item as syn's own `Meta` parser reads it in front of another item (what a macro author gets
/// from `parse_args_with(Punctuated::<Meta, Token![,]>::parse_terminated)`): a negative number is
/// then `-` applied to a literal, a shape darling's own list parser no longer hands on.
pub fn build_meta_via_syn(item_text: &str, pos: usize) -> Option<Built> {
    use syn::punctuated::Punctuated;
    let (src, lo, idx, name) = match pos {
        1 => (format!("{item_text}, zz = 1, yy"), 0usize, 0usize, "first (syn's reading)"),
        _ => (format!("aa = 1, {item_text}, zz"), 8, 1, "middle (syn's reading)"),
    };
    let hi = lo + item_text.len();
    let items = syn::parse::Parser::parse_str(Punctuated::<Meta, syn::Token![,]>::parse_terminated, &src).ok()?;
    let meta = items.into_iter().nth(idx)?;
    let value = match &meta {
        Meta::NameValue(nv) => {
            use syn::spanned::Spanned;
            span_range(nv.value.span())
        }
        _ => None,
    };
    Some(Built {
        meta,
        item: (lo, hi),
        value,
        pos: name,
        src,
    })
}

pub fn build_meta_grouped(item_text: &str, pos: usize, grouping: u8) -> Option<Built> {
    let (src, lo, idx, name) = match pos {
        0 => (item_text.to_string(), 0usize, usize::MAX, "alone"),
        1 => (format!("{item_text}, zz = 1, yy"), 0, 0, "first"),
        2 => (format!("aa = 1, {item_text}, zz"), 8, 1, "middle"),
        _ => (format!("aa, bb = 2, {item_text}"), 12, 2, "last"),
    };
    let hi = lo + item_text.len();
    let meta = if idx == usize::MAX && grouping == 0 {
        syn::parse_str::<Meta>(&src).ok()?
    } else if idx == usize::MAX {
        let ts: TokenStream = syn::parse_str(&src).ok()?;
        syn::parse2::<Meta>(regroup(ts, 0, grouping)?).ok()?
    } else {
        let ts: TokenStream = syn::parse_str(&src).ok()?;
        let ts = if grouping == 0 { ts } else { regroup(ts, idx, grouping)? };
        let items = darling::ast::NestedMeta::parse_meta_list(ts).ok()?;
        match items.into_iter().nth(idx)? {
            darling::ast::NestedMeta::Meta(m) => m,
            _ => return None,
        }
    };
    let value = match &meta {
        Meta::NameValue(nv) => {
            use syn::spanned::Spanned;
            span_range(nv.value.span())
        }
        _ => None,
    };
    let src = if grouping == 0 { src } else { format!("{src}   [the value of `x` in invisible groups: {}]", GROUPINGS[grouping as usize]) };
    Some(Built {
        meta,
        item: (lo, hi),
        value,
        pos: name,
        src,
    })
}

#[derive(Clone, Debug, PartialEq)]
pub enum Want {
    Ok(String),
    Err,
}

/// What the item denotes, as known to the generator.
#[derive(Clone, Debug)]
pub enum Denotes {
    /// unquoted integer literal with this sign+decimal value
    Int(String),
    /// unquoted float literal; cleaned digits (no underscores/suffix), may carry a sign
    Float(String),
    /// quoted: the string contents
    Quoted(String),
    BoolLit(bool),
    CharLit(char),
    Word,
    List,
    Other,
}

fn peel(mut e: &Expr) -> &Expr {
    while let Expr::Group(g) = e {
        e = &g.expr;
    }
    e
}

fn received_class(m: &Meta) -> &'static str {
    match m {
        Meta::Path(_) => "word",
        Meta::List(_) => "list",
        // an invisible group is what a macro fragment leaves around its tokens: it is not part of
        // the value (`-$v` is a negative literal like `-5`)
        Meta::NameValue(nv) => match peel(&nv.value) {
            Expr::Lit(l) => match &l.lit {
                Lit::Int(_) => "lit-int",
                Lit::Float(_) => "lit-float",
                Lit::Str(_) => "lit-str",
                Lit::Bool(_) => "lit-bool",
                Lit::Char(_) => "lit-char",
                Lit::Byte(_) => "lit-byte",
                Lit::ByteStr(_) => "lit-bytestr",
                _ => "lit-other",
            },
            Expr::Unary(u) if matches!(u.op, syn::UnOp::Neg(_)) && matches!(peel(&u.expr), Expr::Lit(l) if matches!(l.lit, Lit::Int(_) | Lit::Float(_))) => "expr-neg-lit",
            Expr::Unary(_) => "expr-unary",
            Expr::Path(_) => "expr-path",
            Expr::Group(_) => "expr-group",
            _ => "expr-other",
        },
    }
}

pub fn expected(t: &Target, d: &Denotes, recv: &str) -> Want {
    let from = |o: Option<String>| o.map(Want::Ok).unwrap_or(Want::Err);
    match (t.kind, d, recv) {
        // a negative number is a literal wherever it stands in the list: syn hands it over as a literal
        // only when it is the last thing in the stream and as `-` applied to a literal otherwise; the
        // statement speaks of "an unquoted literal, its sign and decimal value"
        (Kind::Int, Denotes::Int(v), "expr-neg-lit") => from((t.std_parse)(v)),
        (Kind::Float, Denotes::Float(v), "expr-neg-lit") => from((t.std_parse)(v)),
        (_, _, "expr-neg-lit") => Want::Err,
        // what arrives as any other non-literal expression is rejected by every scalar target
        (_, _, "expr-unary") | (_, _, "expr-path") | (_, _, "expr-other") => Want::Err,
        (Kind::Int, Denotes::Int(v), "lit-int") => from((t.std_parse)(v)),
        (Kind::Float, Denotes::Float(v), "lit-float") => from((t.std_parse)(v)),
        (Kind::Int, Denotes::Quoted(s), "lit-str") | (Kind::Float, Denotes::Quoted(s), "lit-str") => from((t.std_parse)(s)),
        (Kind::Bool, Denotes::Word, "word") => Want::Ok("true".into()),
        (Kind::Bool, Denotes::BoolLit(b), "lit-bool") => Want::Ok(b.to_string()),
        (Kind::Bool, Denotes::Quoted(s), "lit-str") => from((t.std_parse)(s)),
        (Kind::Char, Denotes::CharLit(c), "lit-char") => Want::Ok(format!("{:?}", c)),
        (Kind::Char, Denotes::Quoted(s), "lit-str") => from((t.std_parse)(s)),
        (Kind::Str, Denotes::Quoted(s), "lit-str") => from((t.std_parse)(s)),
        _ => Want::Err,
    }
}

pub struct Judged {
    pub outcome: Want,
}

#[allow(clippy::too_many_arguments)]
pub fn judge(t: &Target, b: &Built, d: &Denotes, spell_class: &str, c: &mut Collector) -> Option<Judged> {
    let recv = received_class(&b.meta);
    let want = expected(t, d, recv);
    c.eval();
    let got = match catch(|| (t.conv)(&b.meta)) {
        Caught::Ok(r) => r,
        Caught::Panic { msg, loc } => {
            c.violation(
                format!("C11:{}:panic:{}", t.name, vfcommon::short_loc(&loc)),
                format!("{}::from_meta panicked on `{}`: {msg}", t.name, b.src),
                json!({"target": t.name, "input": b.src, "position": b.pos, "panic": msg}),
            );
            return None;
        }
    };
    let mut fail = |class: &str, what: String| {
        c.violation(
            format!("C11:{}:{class}", t.name),
            what.clone(),
            json!({"target": t.name, "input": b.src, "position": b.pos, "received": recv, "denotes": format!("{d:?}"), "expected": format!("{want:?}"), "failure": what}),
        );
    };
    let outcome = match (&got, &want) {
        (Ok(v), Want::Ok(w)) => {
            if v != w {
                fail("wrong-value", format!("`{}` -> {} gives {v}, the denoted value is {w}", b.src, t.name));
            }
            Want::Ok(v.clone())
        }
        (Ok(v), Want::Err) => {
            fail("accepted-invalid", format!("`{}` -> {} is accepted as {v}; the target's standard parsing rejects it", b.src, t.name));
            Want::Ok(v.clone())
        }
        (Err(e), Want::Ok(w)) => {
            fail("rejected-valid", format!("`{}` -> {} is rejected ({e}); it denotes {w}", b.src, t.name));
            Want::Err
        }
        (Err(e), Want::Err) => {
            match e.explicit_span().and_then(span_range) {
                None => fail("error-unspanned", format!("`{}` -> {}: error `{e}` carries no span", b.src, t.name)),
                Some((lo, hi)) => {
                    if lo < b.item.0 || hi > b.item.1 {
                        fail("error-span-outside-item", format!("`{}` -> {}: error span [{lo},{hi}) lies outside the item [{},{})", b.src, t.name, b.item.0, b.item.1));
                    }
                }
            }
            Want::Err
        }
    };
    // the literal hook called directly on the same literal (what a hand-written `from_meta`, or
    // `Override<T>`, does): the same value, or an error that carries a span of its own
    if let (Kind::Int | Kind::Float, Meta::NameValue(nv)) = (t.kind, &b.meta) {
        if let Expr::Lit(el) = &nv.value {
            if el.attrs.is_empty() {
                let direct = match catch(|| (t.conv_value)(&el.lit)) {
                    Caught::Ok(r) => Some(r),
                    Caught::Panic { msg, loc } => {
                        fail(&format!("from-value-panic:{}", vfcommon::short_loc(&loc)), format!("{}::from_value panicked on `{}`: {msg}", t.name, b.src));
                        None
                    }
                };
                match (direct, &got) {
                    (None, _) => {}
                    (Some(Ok(v)), Ok(w)) if &v == w => {}
                    (Some(Err(e)), Err(_)) => match e.explicit_span().and_then(span_range) {
                        None => fail("from-value-error-unspanned", format!("`{}` -> {}::from_value on the literal: error `{e}` carries no span", b.src, t.name)),
                        Some((lo, hi)) => {
                            if lo < b.item.0 || hi > b.item.1 {
                                fail("from-value-error-span-outside-item", format!("`{}` -> {}::from_value: error span [{lo},{hi}) lies outside the item", b.src, t.name));
                            }
                        }
                    },
                    (Some(d), g) => fail(
                        "from-value-disagrees",
                        format!("`{}` -> {}: from_value on the literal gives {:?}, from_meta on the item {:?}", b.src, t.name, d.map_err(|e| e.to_string()), g.as_ref().map_err(|e| e.to_string())),
                    ),
                }
            }
        }
    }
    c.nontrivial(&(t.name, recv, spell_class.to_string(), b.pos, matches!(outcome, Want::Ok(_))));
    if c.samples.len() < c.max_samples && (c.evaluations % 977 == 0) {
        c.sample(|| json!({"target": t.name, "input": b.src, "position": b.pos, "received": recv, "class": spell_class, "expected": format!("{want:?}"), "observed": match &got { Ok(v) => format!("Ok({v})"), Err(e) => format!("Err({e})") }}));
    }
    Some(Judged { outcome })
}

fn rand_digits(rng: &mut Rng, n: usize) -> String {
    let mut s = String::new();
    for i in 0..n {
        let d = if i == 0 && n > 1 { rng.range(1, 9) } else { rng.below(10) };
        s.push(std::char::from_digit(d as u32, 10).unwrap());
    }
    s
}

fn quoted(s: &str, rng: &mut Rng) -> String {
    // cooked with escapes, or raw when possible
    if rng.chance(1, 4) && !s.contains('"') && !s.contains('\r') {
        let hashes = if s.contains('#') || rng.coin() { "##" } else { "" };
        if !s.contains("\"#") {
            return format!("r{hashes}\"{s}\"{hashes}");
        }
    }
    let mut out = String::from("\"");
    for ch in s.chars() {
        match ch {
            '"' => out.push_str("\\\""),
            '\\' => out.push_str("\\\\"),
            '\n' => out.push_str("\\n"),
            '\r' => out.push_str("\\r"),
            '\t' => out.push_str("\\t"),
            '\0' => out.push_str("\\0"),
            c if rng.chance(1, 10) => out.push_str(&format!("\\u{{{:x}}}", c as u32)),
            c => out.push(c),
        }
    }
    out.push('"');
    out
}

fn one_case(ts: &[Target], item: &str, d: &Denotes, class: &str, pos: usize, c: &mut Collector) {
    let text = format!("x = {item}");
    let text = match d {
        Denotes::Word => "x".to_string(),
        Denotes::List => format!("x({item})"),
        _ => text,
    };
    let Some(b) = build_meta(&text, pos) else {
        c.discarded += 1;
        return;
    };
    c.count(&format!("received.{}", received_class(&b.meta)));
    for t in ts {
        judge(t, &b, d, class, c);
    }
    // a negative number as syn's own list parser hands it on in front of another item
    if matches!(d, Denotes::Int(_) | Denotes::Float(_)) && item.starts_with('-') {
        if let Some(b) = build_meta_via_syn(&text, 1 + pos % 2) {
            c.count(&format!("received-via-syn.{}", received_class(&b.meta)));
            for t in ts {
                judge(t, &b, d, class, c);
            }
        }
    }
    // the same number arriving as a macro fragment (`$v`, `-$v`, a fragment of a fragment): one of
    // the four groupings per case, chosen by the text
    if matches!(d, Denotes::Int(_) | Denotes::Float(_)) {
        let grouping = 1 + ((text.len() + pos + text.bytes().map(|b| b as usize).sum::<usize>()) % 4) as u8;
        if let Some(b) = build_meta_grouped(&text, pos, grouping) {
            c.count(&format!("grouped.{}.{}", GROUPINGS[grouping as usize], b.pos));
            c.count(&format!("received.{}", received_class(&b.meta)));
            for t in ts {
                judge(t, &b, d, class, c);
            }
        }
    }
}

/// exhaustive sub-space: every integer in [-70000, 70000], plain decimal, unquoted and quoted,
/// all 24 integer targets; plus the quoted/unquoted agreement check.
fn exhaustive_slice(ts: &[Target], lo: i64, hi: i64, c: &mut Collector) {
    let ints: Vec<&Target> = ts.iter().filter(|t| t.kind == Kind::Int).collect();
    for v in lo..hi {
        if v % 4096 == 0 {
            proc_macro2::extra::invalidate_current_thread_spans();
        }
        let dec = v.to_string();
        let un = build_meta(&format!("x = {dec}"), 0);
        let qu = build_meta(&format!("x = \"{dec}\""), 0);
        let (Some(un), Some(qu)) = (un, qu) else {
            c.discarded += 1;
            continue;
        };
        let dn = Denotes::Int(dec.clone());
        let dq = Denotes::Quoted(dec.clone());
        for t in &ints {
            let a = judge(t, &un, &dn, "plain", c);
            let b = judge(t, &qu, &dq, "plain-quoted", c);
            if let (Some(a), Some(b)) = (a, b) {
                if received_class(&un.meta) == "lit-int" && a.outcome != b.outcome {
                    c.violation(
                        format!("C11:{}:quoted-unquoted-disagree", t.name),
                        format!("{} from `{dec}`: unquoted gives {:?}, quoted gives {:?}", t.name, a.outcome, b.outcome),
                        json!({"target": t.name, "input": format!("x = {dec}"), "quoted_input": format!("x = \"{dec}\"")}),
                    );
                }
            }
        }
        c.count("exhaustive.values");
    }
}

/// A decimal within a hair of the midpoint of two adjacent f32 values (exactly on it, just above,
/// just below): the digits are the exact expansion of the midpoint, which an f64 holds exactly, so
/// any conversion that goes through a wider or narrower float first rounds twice and shows.
fn hard_f32(rng: &mut Rng) -> String {
    let a = loop {
        let a = f32::from_bits((rng.next_u64() as u32) & 0x7fff_ffff);
        if a.is_finite() && a < f32::MAX {
            break a;
        }
    };
    // small exponents make the expansion short enough to be a comfortable literal as well
    let a = if rng.chance(1, 3) { f32::from_bits(0x3f80_0000 + (rng.next_u64() as u32 & 0x00ff_ffff)) } else { a };
    let b = f32::from_bits(a.to_bits() + 1);
    let mid = (a as f64 + b as f64) / 2.0;
    let mut d = format!("{mid:.180}");
    while d.ends_with('0') && !d.ends_with(".0") {
        d.pop();
    }
    match rng.below(3) {
        0 => d,
        1 => format!("{d}0000000000000000000001"),
        _ => {
            // just below: decrement the last non-zero digit and pad with nines
            let mut bytes = d.into_bytes();
            let mut i = bytes.len();
            while i > 0 {
                i -= 1;
                if bytes[i].is_ascii_digit() && bytes[i] != b'0' {
                    bytes[i] -= 1;
                    break;
                }
                if bytes[i].is_ascii_digit() {
                    bytes[i] = b'9';
                }
            }
            let mut d = String::from_utf8(bytes).unwrap();
            d.push_str("9999999999999999999999");
            d
        }
    }
}

fn random_case(ts: &[Target], rng: &mut Rng, c: &mut Collector) {
    let pos = rng.below(4);
    match rng.below(12) {
        // type boundaries +-2 in every radix
        0..=2 => {
            let ints: Vec<&Target> = ts.iter().filter(|t| t.kind == Kind::Int).collect();
            let t = rng.pick(&ints);
            let base = if rng.coin() { t.min } else { t.max };
            let base = if rng.chance(1, 8) { "0" } else { base };
            let v = dec_add(base, rng.range(0, 4) as i32 - 2);
            let sp = spell_int(rng, &v, false);
            one_case(ts, &sp.text, &Denotes::Int(v.clone()), &format!("boundary:{}", sp.class), pos, c);
            if rng.coin() {
                one_case(ts, &format!("\"{v}\""), &Denotes::Quoted(v), "boundary-quoted", pos, c);
            }
        }
        // random widths up to 60 digits
        3..=4 => {
            let n = rng.range(1, 60);
            let mut v = rand_digits(rng, n);
            if rng.chance(1, 3) && v != "0" {
                v = format!("-{v}");
            }
            let sp = spell_int(rng, &v, false);
            one_case(ts, &sp.text, &Denotes::Int(v), &format!("wide:{}", sp.class), pos, c);
        }
        // quoted integers: arbitrary contents
        5 => {
            let n = rng.range(1, 45);
            let core = rand_digits(rng, n);
            let s = match rng.below(10) {
                0 => format!("+{core}"),
                1 => format!("-{core}"),
                2 => format!(" {core}"),
                3 => format!("{core} "),
                4 => format!("0x{core}"),
                5 => format!("{core}u8"),
                6 => String::new(),
                7 => format!("000{core}"),
                8 => format!("{}_{}", core, core),
                _ => core,
            };
            one_case(ts, &quoted(&s, rng), &Denotes::Quoted(s), "quoted-int", pos, c);
        }
        // floats
        6..=7 => {
            let n1 = rng.range(1, 25);
            let ip = rand_digits(rng, n1);
            let n2 = rng.range(1, 25);
            let fp = rand_digits(rng, n2);
            let ex = rng.range(0, 400) as i32 * if rng.coin() { 1 } else { -1 };
            let (clean, needs_float_form) = match rng.below(9) {
                6 => (hard_f32(rng), true),
                7 => {
                    // shortest round-trip and scientific spellings of arbitrary bit patterns
                    let x = loop {
                        let x = f64::from_bits(rng.next_u64());
                        if x.is_finite() {
                            break x.abs();
                        }
                    };
                    (if rng.coin() { format!("{x:e}") } else { format!("{:e}", x as f32) }, true)
                }
                8 => {
                    let x = loop {
                        let x = f32::from_bits(rng.next_u64() as u32);
                        if x.is_finite() {
                            break x.abs();
                        }
                    };
                    (format!("{:.1}", x as f64), true)
                }
                0 => (format!("{ip}.{fp}"), true),
                1 => (format!("{ip}e{ex}"), true),
                2 => (format!("{ip}.{fp}e{ex}"), true),
                3 => (format!("{ip}E{}", ex.abs()), true),
                4 => ("1e999".to_string(), true),
                _ => (format!("{ip}."), true),
            };
            let _ = needs_float_form;
            let quoted_side = rng.chance(1, 3);
            if quoted_side {
                let s = match rng.below(10) {
                    0 => "inf".to_string(),
                    1 => "-inf".to_string(),
                    2 => "NaN".to_string(),
                    3 => "-0.0".to_string(),
                    4 => format!(".{fp}"),
                    5 => format!("{ip}."),
                    6 => "infinity".to_string(),
                    7 => format!("+{clean}"),
                    8 => format!("{clean}f32"),
                    _ => clean.clone(),
                };
                one_case(ts, &quoted(&s, rng), &Denotes::Quoted(s), "quoted-float", pos, c);
            } else {
                // unquoted: optional underscores and suffix; `5.` cannot take a suffix
                let mut text = clean.clone();
                let mut class = "float".to_string();
                if rng.chance(1, 4) && !text.ends_with('.') {
                    text.push_str(if rng.coin() { "f32" } else { "f64" });
                    class.push_str("+suffix");
                }
                if rng.chance(1, 4) {
                    // underscores inside the integer part only
                    if ip.len() > 1 {
                        text = format!("{}_{}", &text[..1], &text[1..]);
                        class.push('_');
                    }
                }
                let neg = rng.chance(1, 5);
                let (text, clean) = if neg { (format!("-{text}"), format!("-{clean}")) } else { (text, clean) };
                one_case(ts, &text, &Denotes::Float(clean), &class, pos, c);
            }
        }
        // bool / char / string forms
        8 => {
            match rng.below(8) {
                0 => one_case(ts, "", &Denotes::Word, "word", pos, c),
                1 => one_case(ts, "true", &Denotes::BoolLit(true), "bool", pos, c),
                2 => one_case(ts, "false", &Denotes::BoolLit(false), "bool", pos, c),
                3 => {
                    let s = (*rng.pick(&["true", "false", "True", "1", "0", "yes", " true", "TRUE", ""])).to_string();
                    one_case(ts, &quoted(&s, rng), &Denotes::Quoted(s), "quoted-bool", pos, c)
                }
                4 => one_case(ts, "a = 1, b", &Denotes::List, "list", pos, c),
                5 => one_case(ts, "", &Denotes::List, "empty-list", pos, c),
                6 => one_case(ts, "b'x'", &Denotes::Other, "byte", pos, c),
                _ => one_case(ts, "b\"xy\"", &Denotes::Other, "bytestr", pos, c),
            }
        }
        9 => {
            let chars = ['a', 'Z', '0', ' ', '\'', '"', '\\', '\n', 'é', '😬', '\u{0}', '\u{10ffff}', '#'];
            let ch = *rng.pick(&chars);
            let lit = match ch {
                '\'' => "'\\''".to_string(),
                '\\' => "'\\\\'".to_string(),
                '\n' => "'\\n'".to_string(),
                '\0' => "'\\0'".to_string(),
                c if rng.chance(1, 5) => format!("'\\u{{{:x}}}'", c as u32),
                c => format!("'{c}'"),
            };
            one_case(ts, &lit, &Denotes::CharLit(ch), "char", pos, c);
        }
        10 => {
            // strings of 0..3 chars: one-char strings are chars, everything is a String
            let chars = ['a', 'Z', '0', ' ', '\'', '"', '\\', '\n', 'é', '😬', '#', '1', '-', 't', '\u{fe0f}', '\u{301}', '❤'];
            // (... and now and then long ones, with characters of several bytes at any offset: what a
            // target refuses it has to refuse with an error, whatever it does to the text for its message)
            let (n, class) = if rng.chance(1, 4) {
                (rng.range(8, 70), "str-long".to_string())
            } else {
                let n = rng.below(4);
                (n, format!("str{n}"))
            };
            let wide = ['１', '２', '９', 'é', '😬', '0', '1', '7', 'a', '.', '-', '_'];
            let s: String = (0..n).map(|_| if n >= 8 { *rng.pick(&wide) } else { *rng.pick(&chars) }).collect();
            one_case(ts, &quoted(&s, rng), &Denotes::Quoted(s), &class, pos, c);
        }
        _ => {
            // non-literal expressions and paths as values
            let item = *rng.pick(&["a::b", "foo", "1 + 2", "-x", "(1)", "[1, 2]", "f(1)", "1..2", "&1", "!true", "-(5)", "--5"]);
            one_case(ts, item, &Denotes::Other, "expr", pos, c);
        }
    }
}

pub fn run(args: &Args) -> i32 {
    let started = Instant::now();
    let ts = targets();
    if let Some(p) = &args.replay {
        let v: serde_json::Value = serde_json::from_str(&std::fs::read_to_string(p).unwrap_or_default()).unwrap_or_default();
        let src = v["witness"]["input"].as_str().unwrap_or_else(|| vfcommon::die("replay has no input")).to_string();
        let tname = v["witness"]["target"].as_str().unwrap_or("").to_string();
        // Re-judging a literal input needs the generator's knowledge of what it denotes; for plain
        // decimal / quoted inputs that is recoverable from the text, which covers the witnesses we print.
        let mut c = Collector::new();
        let item = src.trim_start_matches("aa = 1, ").trim_start_matches("aa, bb = 2, ");
        let item = item.split(", zz").next().unwrap_or(item);
        let val = item.trim_start_matches("x = ");
        let d = if let Ok(l) = syn::parse_str::<syn::LitStr>(val) {
            Denotes::Quoted(l.value())
        } else if val.chars().all(|ch| ch.is_ascii_digit() || ch == '-') && !val.is_empty() {
            Denotes::Int(val.to_string())
        } else if item == "x" {
            Denotes::Word
        } else {
            Denotes::Other
        };
        if let Some(b) = build_meta(item, 0) {
            for t in ts.iter().filter(|t| t.name == tname || tname.is_empty()) {
                judge(t, &b, &d, "replay", &mut c);
            }
        }
        c.nontrivial(&0u8);
        return conclude(args, started, c, outcome(0, false));
    }
    let thorough = args.thorough();
    // exhaustive part, split into slices over the workers
    let lo = -70000i64;
    let hi = 70001i64;
    let slices = 64u64;
    let random_total = args.budget(300_000, 20_000_000);
    let c = fan_out(args, 11, random_total, |w, rng, share, c| {
        let n = args.threads.max(1) as u64;
        for s in 0..slices {
            if s % n == w as u64 {
                let a = lo + (hi - lo) * s as i64 / slices as i64;
                let b = lo + (hi - lo) * (s as i64 + 1) / slices as i64;
                exhaustive_slice(&ts, a, b, c);
            }
        }
        for i in 0..share {
            if i % 2048 == 0 {
                proc_macro2::extra::invalidate_current_thread_spans();
            }
            random_case(&ts, rng, c);
        }
    });
    let _ = thorough;
    conclude(args, started, c, outcome(400, true))
}

fn outcome(min: u64, ex: bool) -> Outcome {
    let mut extra = serde_json::Map::new();
    extra.insert("exhaustive_subspace".into(), json!("24 integer targets x every integer in [-70000, 70000] x {unquoted, quoted} plain decimal, incl. quoted/unquoted agreement; everything else is random"));
    Outcome {
        level: "exploration",
        rule: "meta items parsed from generated source text (stand-alone and as first/middle/last list member) converted by all 30 scalar targets; the generator knows the denoted value (sign+decimal) of every literal it spells (radix 2/8/10/16, underscores, suffixes, 1..60 digits, type boundaries +-2), the reference is str::parse::<T> of that canonical spelling or of the quoted contents; errors must be spanned inside the item. Non-trivial = every judged conversion; distinct = (target, received syntactic class, spelling class, list position, accepted?).".into(),
        assumptions: vec![
            "str::parse::<T> is the target type's standard parsing (the reference the property names)".into(),
            "what reaches darling is classified by the syn::Expr variant it is handed, except that `-` applied to a numeric literal (how syn delivers a negative number that is not the last token of the stream) denotes that negative literal".into(),
        ],
        min_nontrivial: min,
        exhaustive: if ex { Some(false) } else { None },
        extra,
    }
}
