//! C18 (API half): the stand-alone shape-set API against the documented table, exhaustively.

use darling::ast;
use darling::util::{AsShape, Shape, ShapeSet};
use serde_json::json;
use std::time::Instant;
use vfcommon::{catch, conclude, Args, Caught, Collector, Outcome};

const SHAPES: [Shape; 4] = [Shape::Named, Shape::Tuple, Shape::Unit, Shape::Newtype];

fn table(set_mask: u8, shape: Shape) -> bool {
    let has = |s: Shape| set_mask & (1 << SHAPES.iter().position(|x| *x == s).unwrap()) != 0;
    // a tuple word also admits newtypes but not the reverse
    has(shape) || (shape == Shape::Newtype && has(Shape::Tuple))
}

fn bodies(shape: Shape) -> Vec<&'static str> {
    match shape {
        Shape::Named => vec!["{ a: u8 }", "{ a: u8, b: u16 }", "{}"],
        Shape::Tuple => vec!["(u8, u16)", "(u8, u16, u32)", "()"],
        Shape::Unit => vec![""],
        Shape::Newtype => vec!["(u8)", "(Vec<u8>,)"],
    }
}

pub fn run(args: &Args) -> i32 {
    let started = Instant::now();
    let mut c = Collector::new();
    for mask in 0u8..16 {
        let set: ShapeSet = SHAPES.iter().enumerate().filter(|(i, _)| mask & (1 << i) != 0).map(|(_, s)| *s).collect();
        let set2 = ShapeSet::new(SHAPES.iter().enumerate().filter(|(i, _)| mask & (1 << i) != 0).map(|(_, s)| *s));
        let mut inserted = ShapeSet::default();
        for (i, s) in SHAPES.iter().enumerate() {
            if mask & (1 << i) != 0 {
                inserted.insert(*s);
            }
        }
        // the same set built in the opposite order, and with every member inserted twice: words are
        // additive whatever order they arrive in
        let reversed = ShapeSet::new(SHAPES.iter().enumerate().rev().filter(|(i, _)| mask & (1 << i) != 0).map(|(_, s)| *s));
        let mut twice = ShapeSet::default();
        for (i, s) in SHAPES.iter().enumerate().rev().chain(SHAPES.iter().enumerate()) {
            if mask & (1 << i) != 0 {
                twice.insert(*s);
            }
        }
        if set.is_empty() != (mask == 0) {
            c.violation("C18:api:is-empty", format!("ShapeSet {mask:04b}: is_empty() = {}", set.is_empty()), json!({"set_mask": mask}));
        }
        for shape in SHAPES {
            let want = table(mask, shape);
            for body in bodies(shape) {
                let ssrc = format!("struct S{}{}", body, if body.starts_with('{') { "" } else { ";" });
                let esrc = format!("enum E {{ V{} }}", body);
                let ds: syn::DeriveInput = syn::parse_str(&ssrc).expect("struct parses");
                let de: syn::DeriveInput = syn::parse_str(&esrc).expect("enum parses");
                let syn::Data::Struct(data_struct) = &ds.data else { unreachable!() };
                let syn::Data::Enum(data_enum) = &de.data else { unreachable!() };
                let variant = &data_enum.variants[0];
                let afields = match ast::Fields::<syn::Field>::try_from(&data_struct.fields) {
                    Ok(f) => f,
                    Err(e) => {
                        c.violation("C18:api:fields-conversion-failed", format!("ast::Fields::try_from fails on `{ssrc}`: {e}"), json!({"input": ssrc}));
                        continue;
                    }
                };
                // every AsShape implementor must give the table's verdict
                let mut verdicts: Vec<(&str, bool, bool)> = vec![];
                let mut probe = |name: &'static str, s: &ShapeSet, f: &dyn Fn(&ShapeSet) -> (bool, darling::Result<()>)| {
                    let (contains, check) = f(s);
                    let leaf_ok = match &check {
                        Ok(()) => true,
                        Err(e) => e.len() == 1 && e.to_string().starts_with("Unsupported shape"),
                    };
                    verdicts.push((name, contains, check.is_ok() && leaf_ok || (check.is_err() && !leaf_ok)));
                    (contains, check.is_ok(), leaf_ok)
                };
                let mut all = vec![];
                for (label, s) in [("collect", &set), ("new", &set2), ("insert", &inserted), ("new-reversed", &reversed), ("insert-twice", &twice)] {
                    let _ = label;
                    all.push(("Shape", probe("Shape", s, &|s| (s.contains(&shape), s.check(&shape)))));
                    all.push(("syn::Fields", probe("syn::Fields", s, &|s| (s.contains(&data_struct.fields), s.check(&data_struct.fields)))));
                    all.push(("syn::DataStruct", probe("syn::DataStruct", s, &|s| (s.contains(data_struct), s.check(data_struct)))));
                    all.push(("syn::Variant", probe("syn::Variant", s, &|s| (s.contains(variant), s.check(variant)))));
                    all.push(("ast::Fields", probe("ast::Fields", s, &|s| (s.contains(&afields), s.check(&afields)))));
                    match &data_struct.fields {
                        syn::Fields::Named(n) => all.push(("syn::FieldsNamed", probe("syn::FieldsNamed", s, &|s| (s.contains(n), s.check(n))))),
                        syn::Fields::Unnamed(u) => all.push(("syn::FieldsUnnamed", probe("syn::FieldsUnnamed", s, &|s| (s.contains(u), s.check(u))))),
                        syn::Fields::Unit => {}
                    }
                }
                for (who, (contains, check_ok, leaf_ok)) in all {
                    c.eval();
                    if contains != want || check_ok != want {
                        c.violation(
                            format!("C18:api:verdict:{who}"),
                            format!("ShapeSet {{{}}} on `{}` via {who}: contains={contains} check_ok={check_ok}, the table says {want}", set, ssrc),
                            json!({"set_mask": mask, "set": set.to_string(), "body": ssrc, "implementor": who}),
                        );
                    }
                    if !check_ok && !leaf_ok {
                        c.violation(format!("C18:api:error-kind:{who}"), format!("ShapeSet {{{}}} on `{ssrc}` via {who}: rejection is not a single unsupported-shape error", set), json!({"set_mask": mask, "body": ssrc}));
                    }
                    c.nontrivial(&(mask, format!("{shape:?}"), body, who));
                }
                c.sample(|| json!({"set": set.to_string(), "body": ssrc, "expected_accept": want}));
            }
        }
    }
    // insert_all accepts everything
    let mut allset = ShapeSet::default();
    allset.insert_all();
    for s in SHAPES {
        if !allset.contains(&s) {
            c.violation("C18:api:insert-all", format!("insert_all() set rejects {s:?}"), json!({}));
        }
    }
    let r = catch(|| ());
    if let Caught::Panic { .. } = r {}
    conclude(
        args,
        started,
        c,
        Outcome {
            level: "exploration",
            rule: "all 2^4 runtime shape sets (built three ways) x 4 shapes x 1-3 bodies per shape x every AsShape implementor (Shape, syn::Fields, FieldsNamed/FieldsUnnamed, DataStruct, Variant, ast::Fields): contains() and check() against the documented table (tuple admits newtype, not the reverse); rejection is one unsupported-shape leaf. Distinct = (set, shape, body, implementor).".into(),
            assumptions: vec![],
            min_nontrivial: 500,
            exhaustive: Some(true),
            extra: Default::default(),
        },
    )
}
