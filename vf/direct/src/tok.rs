//! Spacing-insensitive canonical rendering of token streams; invisible groups are flattened
//! (an invisible group prints nothing, so this is equality of what the user wrote).

use proc_macro2::{Delimiter, TokenStream, TokenTree};

pub fn canon(ts: TokenStream) -> String {
    let mut out = String::new();
    push(ts, &mut out);
    out
}

fn push(ts: TokenStream, out: &mut String) {
    for tt in ts {
        match tt {
            TokenTree::Group(g) => {
                let (o, c) = match g.delimiter() {
                    Delimiter::Parenthesis => ("(", ")"),
                    Delimiter::Brace => ("{", "}"),
                    Delimiter::Bracket => ("[", "]"),
                    Delimiter::None => ("", ""),
                };
                if !o.is_empty() {
                    out.push_str(o);
                    out.push(' ');
                }
                push(g.stream(), out);
                if !c.is_empty() {
                    out.push_str(c);
                    out.push(' ');
                }
            }
            TokenTree::Punct(p) => {
                out.push(p.as_char());
                out.push(' ');
            }
            TokenTree::Ident(i) => {
                out.push_str(&i.to_string());
                out.push(' ');
            }
            TokenTree::Literal(l) => {
                out.push_str(&l.to_string());
                out.push(' ');
            }
        }
    }
}

pub fn canon_of<T: quote::ToTokens>(t: &T) -> String {
    canon(t.to_token_stream())
}

pub fn canon_str(s: &str) -> Option<String> {
    syn::parse_str::<TokenStream>(s).ok().map(canon)
}

pub const KEYWORDS: [&str; 51] = [
    "as", "break", "const", "continue", "crate", "else", "enum", "extern", "false", "fn", "for", "if", "impl", "in", "let", "loop", "match", "mod", "move", "mut", "pub", "ref", "return", "self", "Self", "static", "struct", "super", "trait", "true", "type", "unsafe", "use", "where", "while", "async", "await", "dyn", "abstract", "become", "box", "do", "final", "macro", "override", "priv", "typeof", "unsized", "virtual", "yield", "try",
];
