//! C12: wrapper transparency, differentially: W<..<T>>::from_meta(m) against T::from_meta(m)
//! on the same item, through a compositional model of what each wrapper may change.

use crate::gram;
use crate::tok;
use crate::wrappers_gen;
use darling::util::{Flag, Override, SpannedValue, WithOriginal};
use darling::{Error, FromMeta};
use serde_json::json;
use std::cell::RefCell;
use std::collections::HashMap;
use std::rc::Rc;
use std::sync::Arc;
use std::time::Instant;
use syn::spanned::Spanned;
use syn::Meta;
use vfcommon::{catch, conclude, fan_out, span_range, Args, Caught, Collector, Outcome, Rng};

type R = Option<(usize, usize)>;

#[derive(Debug, FromMeta, PartialEq)]
pub struct StructRecv {
    a: u8,
    #[darling(default)]
    b: String,
}

#[derive(Debug, FromMeta, PartialEq)]
pub enum EnumRecv {
    Alpha,
    Beta,
    Num(u8),
    Rec { a: u8 },
}

/// a receiver that declares its own absent-value
#[derive(Debug, FromMeta, PartialEq)]
#[darling(from_none = none_recv)]
pub struct NoneRecv {
    a: u8,
}

fn none_recv() -> Option<NoneRecv> {
    Some(NoneRecv { a: 211 })
}

#[derive(Clone, Copy, Debug, PartialEq, Eq, Hash)]
pub enum W {
    Opt,
    Box,
    Rc,
    Arc,
    RefCell,
    Spanned,
    WithOrig,
    Override,
    DResult,
    MResult,
}

#[derive(Clone, Debug, PartialEq)]
pub enum Out {
    Ok(String),
    Err(Vec<(String, R)>),
}

pub struct Seen {
    pub spans: Vec<R>,
    pub originals: Vec<String>,
    /// keep `Some(..)` visible instead of peeling it (from_none comparisons: `Some(None)` is not `None`)
    pub structural: bool,
}

pub trait Peel {
    fn peel(&self, seen: &mut Seen) -> String;
}

macro_rules! peel_debug {
    ($($t:ty),*) => { $(impl Peel for $t { fn peel(&self, _: &mut Seen) -> String { format!("{:?}", self) } })* };
}
peel_debug!(bool, u8, i64, String, char, StructRecv, EnumRecv, NoneRecv);
impl Peel for Flag {
    fn peel(&self, _: &mut Seen) -> String {
        format!("Flag({})", self.is_present())
    }
}
macro_rules! peel_tokens {
    ($($t:ty),*) => { $(impl Peel for $t { fn peel(&self, _: &mut Seen) -> String { tok::canon_of(self) } })* };
}
peel_tokens!(syn::Path, syn::Ident, syn::Expr, syn::LitStr);
impl Peel for darling::util::PathList {
    fn peel(&self, _: &mut Seen) -> String {
        self.iter().map(tok::canon_of).collect::<Vec<_>>().join("|")
    }
}
impl Peel for HashMap<String, String> {
    fn peel(&self, _: &mut Seen) -> String {
        let mut v: Vec<_> = self.iter().collect();
        v.sort();
        format!("{v:?}")
    }
}
impl<T: Peel> Peel for Option<T> {
    fn peel(&self, s: &mut Seen) -> String {
        match self {
            Some(t) if s.structural => format!("Some({})", t.peel(s)),
            Some(t) => t.peel(s),
            None => "None".into(),
        }
    }
}
impl<T: Peel> Peel for Box<T> {
    fn peel(&self, s: &mut Seen) -> String {
        (**self).peel(s)
    }
}
impl<T: Peel> Peel for Rc<T> {
    fn peel(&self, s: &mut Seen) -> String {
        (**self).peel(s)
    }
}
impl<T: Peel> Peel for Arc<T> {
    fn peel(&self, s: &mut Seen) -> String {
        (**self).peel(s)
    }
}
impl<T: Peel> Peel for RefCell<T> {
    fn peel(&self, s: &mut Seen) -> String {
        self.borrow().peel(s)
    }
}
impl<T: Peel> Peel for SpannedValue<T> {
    fn peel(&self, s: &mut Seen) -> String {
        s.spans.push(span_range(self.span()));
        (**self).peel(s)
    }
}
impl<T: Peel> Peel for WithOriginal<T, Meta> {
    fn peel(&self, s: &mut Seen) -> String {
        s.originals.push(orig_repr(&self.original));
        self.parsed.peel(s)
    }
}
impl<T: Peel> Peel for Override<T> {
    fn peel(&self, s: &mut Seen) -> String {
        match self {
            Override::Inherit => "Inherit".into(),
            Override::Explicit(t) => t.peel(s),
        }
    }
}
/// an item as it is kept: its tokens, and how many invisible groups stand around a name-value item's
/// value (tokens alone do not show them)
pub fn orig_repr(m: &Meta) -> String {
    let mut depth = 0;
    if let Meta::NameValue(nv) = m {
        let mut v = &nv.value;
        while let syn::Expr::Group(g) = v {
            depth += 1;
            v = &g.expr;
        }
    }
    if depth == 0 {
        tok::canon_of(m)
    } else {
        format!("{} [value in {depth} invisible group(s)]", tok::canon_of(m))
    }
}

pub fn leaves(e: &Error) -> Vec<(String, R)> {
    let mut out = vec![];
    // several errors at once come as a bundle: how it is nested, where it is located and whether it
    // carries a span are part of the outcome (a wrapper that holds or passes on `T`'s error holds that one)
    if e.len() > 1 {
        out.push((format!("<as a whole> {e}"), e.explicit_span().and_then(span_range)));
    }
    out.extend(e.clone().flatten().into_iter().map(|l| (l.to_string(), l.explicit_span().and_then(span_range))));
    out
}
impl<T: Peel> Peel for darling::Result<T> {
    fn peel(&self, s: &mut Seen) -> String {
        match self {
            Ok(t) => format!("ROk({})", t.peel(s)),
            Err(e) => format!("RErr{:?}", leaves(e)),
        }
    }
}
impl<T: Peel> Peel for std::result::Result<T, Meta> {
    fn peel(&self, s: &mut Seen) -> String {
        match self {
            Ok(t) => format!("MOk({})", t.peel(s)),
            Err(m) => format!("MErr({})", orig_repr(m)),
        }
    }
}

pub struct Observed {
    pub out: Out,
    pub seen: Seen,
}

pub fn observe<T: FromMeta + Peel>(m: &Meta) -> Observed {
    let mut seen = Seen {
        spans: vec![],
        originals: vec![],
        structural: false,
    };
    let out = match T::from_meta(m) {
        Ok(v) => Out::Ok(v.peel(&mut seen)),
        Err(e) => Out::Err(leaves(&e)),
    };
    Observed { out, seen }
}

/// the same conversion entered through the element-level hook (`from_nested_meta` of a list item)
pub fn observe_nested<T: FromMeta + Peel>(m: &Meta) -> Observed {
    let mut seen = Seen {
        spans: vec![],
        originals: vec![],
        structural: false,
    };
    let out = match T::from_nested_meta(&darling::ast::NestedMeta::Meta(m.clone())) {
        Ok(v) => Out::Ok(v.peel(&mut seen)),
        Err(e) => Out::Err(leaves(&e)),
    };
    Observed { out, seen }
}

pub fn observe_none<T: FromMeta + Peel>() -> Option<String> {
    let mut seen = Seen {
        spans: vec![],
        originals: vec![],
        structural: true,
    };
    T::from_none().map(|v| v.peel(&mut seen))
}

pub struct Entry {
    pub name: &'static str,
    pub chain: &'static [W],
    pub inner: &'static str,
    pub conv: fn(&Meta) -> Observed,
    pub nested: fn(&Meta) -> Observed,
    pub none: fn() -> Option<String>,
}

#[derive(Clone, Copy, PartialEq, Eq, Debug, Hash)]
enum FormKind {
    Word,
    List,
    NvLit,
    NvExpr,
}

fn apply(w: W, inner: Out, form: FormKind, meta_tokens: &str) -> Out {
    match w {
        W::Opt | W::Box | W::Rc | W::Arc | W::RefCell | W::Spanned | W::WithOrig => inner,
        W::Override => {
            if form == FormKind::Word {
                Out::Ok("Inherit".into())
            } else {
                inner
            }
        }
        W::DResult => Out::Ok(match inner {
            Out::Ok(v) => format!("ROk({v})"),
            Out::Err(l) => format!("RErr{l:?}"),
        }),
        W::MResult => Out::Ok(match inner {
            Out::Ok(v) => format!("MOk({v})"),
            Out::Err(_) => format!("MErr({meta_tokens})"),
        }),
    }
}

fn model(chain: &[W], base: &Out, form: FormKind, meta_tokens: &str) -> Out {
    let mut cur = base.clone();
    for w in chain.iter().rev() {
        cur = apply(*w, cur, form, meta_tokens);
    }
    cur
}

fn model_none(chain: &[W], base: Option<String>) -> Option<String> {
    let mut cur = base;
    for w in chain.iter().rev() {
        cur = match w {
            W::Opt => Some("None".into()),
            W::Box | W::Rc | W::Arc | W::RefCell => cur,
            W::DResult => cur.map(|v| format!("ROk({v})")),
            W::Spanned | W::WithOrig | W::Override | W::MResult => None,
        };
    }
    cur
}

fn gen_item(rng: &mut Rng) -> (String, FormKind) {
    match rng.below(10) {
        0 => ((*rng.pick(&["x", "a::b", "alpha"])).to_string(), FormKind::Word),
        1 | 2 => {
            let body = *rng.pick(&[
                "a = 1", "a = 1, b = \"s\"", "a = 300", "zzz", "", "alpha", "beta", "num = 7", "num = \"7\"", "rec(a = 2)", "rec(a = 2, q)", "k = \"v\", k2 = \"w\"", "k = \"v\", k = \"w\"", "a::b, c", "a::b, c = 1", "alpha, beta", "\"lit\"", "a = 1, a = 2, c",
                // lists that are not lists of items: whatever T makes of them, a wrapper adds nothing to it
                "1 2", "a b", "=", "a; b", ", a",
            ]);
            (format!("x({body})"), FormKind::List)
        }
        3..=6 => {
            let v = match rng.below(18) {
                0 => "true".to_string(),
                1 => "false".to_string(),
                2 => rng.below(300).to_string(),
                3 => "-7".to_string(),
                4 => "99999999999".to_string(),
                5 => "1.5".to_string(),
                6 => "\"true\"".to_string(),
                7 => "\"a::b\"".to_string(),
                8 => "\"c\"".to_string(),
                9 => "\"alpha\"".to_string(),
                10 => "\"12\"".to_string(),
                11 => "'c'".to_string(),
                12 => "b\"xy\"".to_string(),
                13 => "\"1 + 2\"".to_string(),
                14 => "\"\"".to_string(),
                15 => "\"num\"".to_string(),
                16 => "\"((\"".to_string(),
                _ => gram::lit(rng),
            };
            (format!("x = {v}"), FormKind::NvLit)
        }
        _ => {
            let v = match rng.below(8) {
                0 => "a::b".to_string(),
                1 => "foo".to_string(),
                2 => "::a::b".to_string(),
                3 => "1 + 2".to_string(),
                4 => "|a| a".to_string(),
                5 => "[1, 2]".to_string(),
                6 => "-x".to_string(),
                _ => gram::expr(rng, 2).0,
            };
            (format!("x = {v}"), FormKind::NvExpr)
        }
    }
}

fn classify(m: &Meta) -> FormKind {
    match m {
        Meta::Path(_) => FormKind::Word,
        Meta::List(_) => FormKind::List,
        Meta::NameValue(nv) => match &nv.value {
            syn::Expr::Lit(_) => FormKind::NvLit,
            _ => FormKind::NvExpr,
        },
    }
}

fn expected_span(m: &Meta) -> Option<R> {
    match m {
        Meta::Path(p) => Some(span_range(p.span())),
        Meta::List(l) => {
            if l.tokens.is_empty() {
                // nothing between the delimiters: the value's own range is the delimiters themselves
                Some(span_range(l.delimiter.span().join()))
            } else {
                Some(span_range(l.tokens.span()))
            }
        }
        Meta::NameValue(nv) => Some(span_range(nv.value.span())),
    }
}

fn judge(table: &[Entry], base_idx: &HashMap<&'static str, usize>, text: &str, c: &mut Collector, only: Option<&str>) {
    let Ok(meta) = syn::parse_str::<Meta>(text) else {
        c.discarded += 1;
        return;
    };
    // a value that is no literal may come out of a macro fragment: the same item with its value inside
    // an invisible group (a grouped literal loses its group in the list parser and never arrives)
    if let Meta::NameValue(nv) = &meta {
        if !matches!(nv.value, syn::Expr::Lit(_) | syn::Expr::Group(_)) && !matches!(&nv.value, syn::Expr::Unary(u) if matches!(&*u.expr, syn::Expr::Lit(_))) {
            let mut g = nv.clone();
            g.value = syn::Expr::Group(syn::ExprGroup {
                attrs: vec![],
                group_token: syn::token::Group { span: syn::spanned::Spanned::span(&nv.value) },
                expr: Box::new(nv.value.clone()),
            });
            judge_meta(table, base_idx, &format!("{text} [value in an invisible group]"), Meta::NameValue(g), c, only);
        }
    }
    judge_meta(table, base_idx, text, meta, c, only);
}

fn judge_meta(table: &[Entry], base_idx: &HashMap<&'static str, usize>, text: &str, meta: Meta, c: &mut Collector, only: Option<&str>) {
    let form = classify(&meta);
    let mt = orig_repr(&meta);
    let mut base_cache: HashMap<&'static str, Out> = HashMap::new();
    for e in table {
        if let Some(o) = only {
            if e.name != o {
                continue;
            }
        }
        if e.chain.is_empty() {
            continue;
        }
        let base = match base_cache.get(e.inner) {
            Some(b) => b.clone(),
            None => {
                let be = &table[base_idx[e.inner]];
                let b = match catch(|| (be.conv)(&meta)) {
                    Caught::Ok(o) => o.out,
                    Caught::Panic { msg, loc } => {
                        c.violation(format!("C12:{}:panic:{}", be.name, vfcommon::short_loc(&loc)), format!("{}::from_meta(`{text}`) panicked: {msg}", be.name), json!({"input": text, "type": be.name}));
                        continue;
                    }
                };
                base_cache.insert(e.inner, b.clone());
                b
            }
        };
        c.eval();
        let want = model(e.chain, &base, form, &mt);
        let obs = match catch(|| (e.conv)(&meta)) {
            Caught::Ok(o) => o,
            Caught::Panic { msg, loc } => {
                c.violation(format!("C12:{}:panic:{}", e.chain_sig(), vfcommon::short_loc(&loc)), format!("{}::from_meta(`{text}`) panicked: {msg}", e.name), json!({"input": text, "type": e.name}));
                continue;
            }
        };
        let mut fail = |class: &str, what: String| {
            c.violation(
                format!("C12:{}:{class}", e.chain_sig()),
                what.clone(),
                json!({"input": text, "type": e.name, "inner_outcome": format!("{base:?}"), "expected": format!("{want:?}"), "observed": format!("{:?}", obs.out), "failure": what}),
            );
        };
        if obs.out != want {
            let class = match (&obs.out, &want) {
                (Out::Err(_), Out::Ok(_)) => "rejects-what-inner-accepts",
                (Out::Ok(_), Out::Err(_)) => "accepts-what-inner-rejects",
                (Out::Ok(_), Out::Ok(_)) => "different-value",
                (Out::Err(_), Out::Err(_)) => "different-error",
            };
            fail(class, format!("{} on `{text}`: {:?}; {} gives {:?}, so expected {:?}", e.name, obs.out, e.inner, base, want));
        } else {
            // SpannedValue records the value's own source range
            if let Some(exp) = expected_span(&meta) {
                for s in &obs.seen.spans {
                    if *s != exp {
                        fail("spanned-value-range", format!("{} on `{text}`: SpannedValue span {:?}, the value's range is {:?}", e.name, s, exp));
                    }
                }
            }
            // a list item that is a meta item converts the same way whichever entry point is used
            if let Caught::Ok(o2) = catch(|| (e.nested)(&meta)) {
                if o2.out != obs.out {
                    fail("nested-entry-differs", format!("{} on `{text}`: from_nested_meta gives {:?}, from_meta {:?}", e.name, o2.out, obs.out));
                } else if o2.seen.spans != obs.seen.spans {
                    fail("nested-entry-span-differs", format!("{} on `{text}`: SpannedValue records {:?} through from_nested_meta and {:?} through from_meta", e.name, o2.seen.spans, obs.seen.spans));
                }
            }
            let n_spanned = e.chain.iter().filter(|w| **w == W::Spanned).count();
            let plain = matches!(&obs.out, Out::Ok(v) if !v.contains("Inherit") && !v.contains("RErr") && !v.contains("MErr"));
            if plain && obs.seen.spans.len() != n_spanned {
                fail("spanned-value-missing", format!("{} on `{text}`: {} SpannedValue spans observed, {} expected", e.name, obs.seen.spans.len(), n_spanned));
            }
            for o in &obs.seen.originals {
                if *o != mt {
                    fail("with-original-differs", format!("{} on `{text}`: WithOriginal kept `{o}`", e.name));
                }
            }
        }
        c.nontrivial(&(e.name, form, matches!(base, Out::Ok(_))));
        if c.samples.len() < c.max_samples && c.evaluations % 7919 == 0 {
            c.sample(|| json!({"input": text, "type": e.name, "inner_outcome": format!("{base:?}"), "observed": format!("{:?}", obs.out)}));
        }
    }
    c.count(&format!("form.{form:?}"));
}

impl Entry {
    fn chain_sig(&self) -> String {
        if self.chain.is_empty() {
            self.name.to_string()
        } else {
            self.chain.iter().map(|w| format!("{w:?}")).collect::<Vec<_>>().join("<")
        }
    }
}

fn check_none(table: &[Entry], base_idx: &HashMap<&'static str, usize>, c: &mut Collector) {
    for e in table {
        if e.chain.is_empty() {
            continue;
        }
        c.eval();
        let base = (table[base_idx[e.inner]].none)();
        let want = model_none(e.chain, base.clone());
        let got = (e.none)();
        if got != want {
            c.violation(
                format!("C12:{}:from-none", e.chain_sig()),
                format!("{}::from_none() = {:?}; {}::from_none() = {:?}, so expected {:?}", e.name, got, e.inner, base, want),
                json!({"input": "<absent>", "type": e.name}),
            );
        }
        c.nontrivial(&(e.name, "none"));
    }
    // Flag
    c.eval();
    match Flag::from_none() {
        Some(f) if !f.is_present() => {}
        other => c.violation("C12:Flag:from-none", format!("Flag::from_none() = {:?}", other.map(|f| f.is_present())), json!({"input": "<absent>", "type": "Flag"})),
    }
    for text in ["x", "a::b", "x = true", "x()", "x(a)", "x = \"s\"", "x = 1 + 2"] {
        c.eval();
        let m: Meta = syn::parse_str(text).unwrap();
        let f = Flag::from_meta(&m);
        let u = <()>::from_meta(&m);
        let ok = match (&f, &u, &m) {
            (Ok(f), Ok(()), Meta::Path(p)) => f.is_present() && span_range(f.span()) == span_range(p.span()),
            (Err(a), Err(b), _) => leaves(a) == leaves(b),
            _ => false,
        };
        if !ok {
            c.violation("C12:Flag:from-meta", format!("Flag on `{text}`: {:?} vs () {:?}", f.as_ref().map(|f| f.is_present()).map_err(|e| e.to_string()), u.as_ref().map_err(|e| e.to_string())), json!({"input": text, "type": "Flag"}));
        }
        c.nontrivial(&("Flag", text));
    }
    // IdentString mirrors Ident
    for text in ["x = foo", "x = \"bar\"", "x = r#type", "x = a::b", "x = 5", "x", "x(a)"] {
        c.eval();
        let m: Meta = syn::parse_str(text).unwrap();
        let a = darling::util::IdentString::from_meta(&m).map(|i| i.to_string()).map_err(|e| leaves(&e));
        let b = syn::Ident::from_meta(&m).map(|i| i.to_string()).map_err(|e| leaves(&e));
        if a != b {
            c.violation("C12:IdentString:differs-from-ident", format!("IdentString on `{text}`: {a:?}, Ident: {b:?}"), json!({"input": text, "type": "IdentString"}));
        }
        c.nontrivial(&("IdentString", text));
    }
}

pub fn run(args: &Args) -> i32 {
    let started = Instant::now();
    let table = wrappers_gen::table();
    let base_idx: HashMap<&'static str, usize> = table.iter().enumerate().filter(|(_, e)| e.chain.is_empty()).map(|(i, e)| (e.name, i)).collect();
    if let Some(p) = &args.replay {
        let v: serde_json::Value = serde_json::from_str(&std::fs::read_to_string(p).unwrap_or_default()).unwrap_or_default();
        let text = v["witness"]["input"].as_str().unwrap_or_else(|| vfcommon::die("replay has no input")).to_string();
        let ty = v["witness"]["type"].as_str().map(|s| s.to_string());
        let mut c = Collector::new();
        if text == "<absent>" {
            check_none(&table, &base_idx, &mut c);
        } else {
            judge(&table, &base_idx, &text, &mut c, ty.as_deref());
        }
        c.nontrivial(&0u8);
        c.nontrivial(&1u8);
        return conclude(args, started, c, outcome(0));
    }
    let total = args.budget(1_500, 100_000);
    let c = fan_out(args, 12, total, |w, rng, share, c| {
        if w == 0 {
            check_none(&table, &base_idx, c);
        }
        for i in 0..share {
            if i % 256 == 0 {
                proc_macro2::extra::invalidate_current_thread_spans();
            }
            let (text, _) = gen_item(rng);
            judge(&table, &base_idx, &text, c, None);
        }
    });
    conclude(args, started, c, outcome(3000))
}

fn outcome(min: u64) -> Outcome {
    Outcome {
        level: "exploration",
        rule: "1665 wrapper types (10 wrappers and all 100 two-level compositions over 15 inner targets incl. derived struct and enum receivers, a receiver declaring from_none, Flag and a string map) x random meta items (word, list, name-value literal of every kind, name-value expression); each observed outcome (peeled value or (Display, span) leaf sequence) is compared with a compositional model applied to the inner type's outcome on the same item; SpannedValue range, WithOriginal copy and from_none (compared structurally: Some(None) is not None) are checked too. Distinct = (wrapper type, item form, inner accepted?).".into(),
        assumptions: vec!["the inner type's own outcome on the same item is the reference (differential)".into(), "SpannedValue on an empty list has no tokens to point at and is exempt".into()],
        min_nontrivial: min,
        exhaustive: None,
        extra: Default::default(),
    }
}
