//! Hostile generator of `DeriveInput` source text for C06 (and shared pieces for C10 / C19):
//! every data shape, generics, and `#[darling ...]` attributes ranging from well-formed option
//! lists to arbitrary token trees, on container, variant and field positions.

use vfcommon::Rng;

pub const TRAITS: [&str; 6] = ["FromMeta", "FromDeriveInput", "FromField", "FromVariant", "FromTypeParam", "FromAttributes"];

pub fn generics(rng: &mut Rng) -> (String, String) {
    if rng.chance(3, 5) {
        return (String::new(), String::new());
    }
    let mut ps = vec![];
    if rng.coin() {
        ps.push("'a".to_string());
    }
    if rng.chance(1, 4) {
        ps.push("'b: 'a".to_string());
    }
    for n in ["T", "U"] {
        if rng.coin() {
            ps.push(match rng.below(4) {
                0 => n.to_string(),
                1 => format!("{n}: Clone"),
                2 => format!("{n}: Clone + ?Sized"),
                _ => format!("{n} = u8"),
            });
        }
    }
    if rng.chance(1, 4) {
        ps.push("const N: usize".into());
    }
    if ps.is_empty() {
        return (String::new(), String::new());
    }
    let wh = if rng.chance(1, 3) {
        let subject = if ps.iter().any(|p| p.starts_with('T')) { "T" } else { "u8" };
        format!(" where {subject}: Default")
    } else {
        String::new()
    };
    (format!("<{}>", ps.join(", ")), wh)
}

pub fn field_type(rng: &mut Rng) -> String {
    // one in four: any type form the grammar knows, or a bound form the usage analysis has to survive
    match rng.below(8) {
        0 => return crate::gram::ty(rng, 2),
        1 => return (*rng.pick(&["impl Sized + use<>", "Option<impl Sized + use<'a, T>>", "impl ?Sized + 'a", "Box<dyn for<'x> Fn(&'x T) -> U + Send + 'a>", "impl for<'x> Fn(&'x u8)", "Vec<impl Iterator<Item = T> + use<T>>", "<T as Trait<U>>::Out<'a, N>", "[T; { N + 1 }]", "fn(&'a T, ...) -> !"])).to_string(),
        _ => {}
    }
    (*rng.pick(&["u8", "String", "bool", "Option<u8>", "Vec<String>", "T", "Vec<T>", "&'a str", "syn::Ident", "Box<U>", "std::collections::HashMap<String, T>", "[u8; N]", "(u8, T)", "fn(T) -> U", "m!(x)"])).to_string()
}

const CONTAINER_OPTS: [&str; 41] = [
    "default", "default = \"make\"", "default = path::make", "default = 5", "default(x)", "rename_all = \"snake_case\"", "rename_all = \"PascalCase\"", "rename_all = \"camelCase\"", "rename_all = \"SCREAMING_SNAKE_CASE\"", "rename_all = \"kebab-case\"", "rename_all = \"bogus\"", "rename_all = 5", "rename_all",
    "map = \"f\"", "map = f", "and_then = g", "and_then = \"a::g\"", "map = |x| x", "bound = \"T: Clone\"", "bound = \"\"", "bound = 5", "allow_unknown_fields", "allow_unknown_fields = false",
    "attributes(a)", "attributes(a, b::c)", "attributes()", "attributes = \"a\"", "forward_attrs", "forward_attrs(doc, allow)", "forward_attrs()", "forward_attrs = true", "from_ident", "from_ident = true",
    "supports(struct_named)", "supports(any)", "supports(enum_unit, enum_newtype, struct_tuple)", "supports(bogus)", "supports(struct_struct_named)", "supports(\"x\")", "supports", "supports(struct_any, enum_any)",
];
const CONTAINER_FM_OPTS: [&str; 8] = ["from_word = f", "from_word = || Ok(Self::new())", "from_word = \"f\"", "from_word", "from_none = f", "from_none = || None", "from_none = 5", "from_none(x)"];
const FIELD_OPTS: [&str; 34] = [
    "rename = \"x\"", "rename = \"two words\"", "rename = 5", "rename", "default", "default = \"p\"", "default = p::q", "default = 1 + 1", "with = f", "with = \"f\"", "with = |m| Ok(Default::default())", "with = a::b::c", "with",
    "skip", "skip = true", "skip = false", "skip = \"yes\"", "skip = 1", "map = f", "map = \"f\"", "and_then = g", "and_then = |v| Ok(v)", "multiple", "multiple = true", "multiple = false", "multiple = 3", "flatten", "flatten = true", "flatten()", "flatten = false",
    "map", "and_then(x)", "default()", "with = 5",
];
const VARIANT_OPTS: [&str; 14] = ["rename = \"x\"", "rename = 5", "rename", "skip", "skip = true", "skip = false", "skip = 2", "word", "word = true", "word = false", "word = \"x\"", "word()", "allow_unknown_fields", "default"];
const UNKNOWN_OPTS: [&str; 8] = ["defualt", "foo = 1", "bar(baz)", "r#type", "a::b", "::c = 2", "crate", "skipp"];

#[derive(Clone, Copy, PartialEq, Eq)]
pub enum Level {
    Container,
    Field,
    Variant,
}

fn option_list(rng: &mut Rng, level: Level) -> String {
    let n = rng.weighted(&[1, 6, 5, 3, 1]);
    let mut items = vec![];
    for _ in 0..n {
        let pool = match rng.below(12) {
            0 => 3, // unknown
            1 => rng.below(3),
            _ => match level {
                Level::Container => 0,
                Level::Field => 1,
                Level::Variant => 2,
            },
        };
        let it = match pool {
            0 => {
                if rng.chance(1, 5) {
                    *rng.pick(&CONTAINER_FM_OPTS)
                } else {
                    *rng.pick(&CONTAINER_OPTS)
                }
            }
            1 => *rng.pick(&FIELD_OPTS),
            2 => *rng.pick(&VARIANT_OPTS),
            _ => *rng.pick(&UNKNOWN_OPTS),
        };
        // the option's name spelled as a longer path now and then: a leading `::`, a segment in front
        // of it or behind it, a raw identifier
        let it = match rng.below(16) {
            0 => format!("::{it}"),
            1 => format!("x::{it}"),
            2 => match it.find(|c: char| !(c.is_alphanumeric() || c == '_')) {
                Some(i) => format!("{}::y{}", &it[..i], &it[i..]),
                None => format!("{it}::y"),
            },
            3 => format!("r#{it}"),
            _ => it.to_string(),
        };
        items.push(it);
    }
    let mut s = items.join(", ");
    if !items.is_empty() && rng.chance(1, 6) {
        s.push(',');
    }
    s
}

fn soup(rng: &mut Rng, depth: usize) -> String {
    let n = rng.range(0, 7);
    let mut s = String::new();
    for _ in 0..n {
        let t = match rng.below(18) {
            0 => ",".to_string(),
            1 => "=".to_string(),
            2 => (*rng.pick(&[";", ":", "::", "+", "-", "*", "!", "@", "#", "$", "%", "^", "&", "|", "<", ">", "?", ".", "~", "->", "=>", ".."])).to_string(),
            3 | 4 => (*rng.pick(&["skip", "default", "rename", "word", "flatten", "x", "r#fn", "_", "attributes", "supports"])).to_string(),
            5 => (*rng.pick(&["fn", "struct", "self", "Self", "crate", "super", "type", "true", "false", "as", "in", "mut"])).to_string(),
            6 => (*rng.pick(&["1", "0xff", "1.5", "1e9", "\"s\"", "r#\"r\"#", "b\"b\"", "b'b'", "'c'", "c\"c\"", "-1", "99999999999999999999999999", "1u8", "'a"])).to_string(),
            7 | 8 if depth > 0 => {
                let (o, c) = *rng.pick(&[("(", ")"), ("[", "]"), ("{", "}")]);
                format!("{o}{}{c}", soup(rng, depth - 1))
            }
            9 => format!("{} = {}", rng.pick(&["skip", "rename", "default", "with", "map"]), rng.pick(&["", "=", ",", "1 +", "\"x\"", "||"])),
            10 => option_list(rng, Level::Field),
            _ => (*rng.pick(&["a", "b", ",", "=", "skip", "\"x\""])).to_string(),
        };
        s.push_str(&t);
        s.push(' ');
    }
    s
}

/// one `#[darling ...]` attribute (or an unrelated one)
pub fn darling_attr(rng: &mut Rng, level: Level) -> String {
    match rng.below(20) {
        0..=9 => format!("#[darling({})]", option_list(rng, level)),
        10 => "#[darling]".to_string(),
        11 => format!("#[darling = {}]", rng.pick(&["\"x\"", "5", "true", "a::b", "skip"])),
        12 => format!("#[darling[{}]]", option_list(rng, level)),
        13 => format!("#[darling{{{}}}]", option_list(rng, level)),
        14 => format!("#[darling({})]", rng.pick(&["\"lit\"", "skip, 5", "5", "true", "rename = \"x\", 'c'", "b\"b\", default", "-1"])),
        15 | 16 => format!("#[darling({})]", soup(rng, 2)),
        17 => (*rng.pick(&["/// doc", "#[doc = \"d\"]", "#[allow(dead_code)]", "#[serde(skip)]", "#[darling::skip]", "#[cfg(test)]"])).to_string(),
        18 => format!("#[darling({}({}))]", rng.pick(&["skip", "rename", "default", "attributes", "supports", "nested"]), soup(rng, 1)),
        _ => format!("#[darling({})] #[darling({})]", option_list(rng, level), option_list(rng, level)),
    }
}

fn attrs(rng: &mut Rng, level: Level, p_any: u32) -> String {
    let mut s = String::new();
    if rng.chance(p_any, 10) {
        let n = rng.weighted(&[0, 6, 2, 1]);
        for _ in 0..n {
            s.push_str(&darling_attr(rng, level));
            s.push(' ');
        }
    }
    s
}

const FIELD_NAMES: [&str; 24] = ["état_initial", "ünï", "__", "_x", "a", "b", "c", "lorem", "ident", "attrs", "vis", "ty", "data", "generics", "bounds", "default", "discriminant", "fields", "r#type", "skip", "__errors", "items", "name", "x1"];

fn named_fields(rng: &mut Rng, n: usize) -> String {
    let mut used: Vec<&str> = vec![];
    let mut out = vec![];
    for _ in 0..n {
        let mut name = *rng.pick(&FIELD_NAMES);
        let mut tries = 0;
        while used.contains(&name) && tries < 20 {
            name = *rng.pick(&FIELD_NAMES);
            tries += 1;
        }
        if used.contains(&name) {
            continue;
        }
        used.push(name);
        let vis = *rng.pick(&["", "", "pub ", "pub(crate) "]);
        out.push(format!("{}{}{}: {}", attrs(rng, Level::Field, 5), vis, name, field_type(rng)));
    }
    out.join(", ")
}

fn tuple_fields(rng: &mut Rng, n: usize) -> String {
    (0..n).map(|_| format!("{}{}", attrs(rng, Level::Field, 4), field_type(rng))).collect::<Vec<_>>().join(", ")
}

pub struct Decl {
    pub src: String,
    pub shape: String,
}

/// A syntactically valid struct / enum / union item with hostile `#[darling ...]` attributes.
pub fn hostile_decl(rng: &mut Rng) -> Decl {
    // one declaration in twelve is a well-formed attribute-reading receiver that forwards attributes:
    // random option soup almost never lands on a combination of options that is accepted as a whole,
    // and code generation only runs for those
    if rng.chance(1, 12) {
        return forwarding_decl(rng);
    }
    let (gen, wh) = generics(rng);
    let cattrs = attrs(rng, Level::Container, 7);
    let vis = *rng.pick(&["", "pub ", "pub(crate) "]);
    match rng.below(12) {
        0 => Decl {
            src: format!("{cattrs}{vis}struct Recv{gen}{wh};"),
            shape: "unit-struct".into(),
        },
        1 => Decl {
            src: format!("{cattrs}{vis}struct Recv{gen}({}){wh};", tuple_fields(rng, 1)),
            shape: "newtype-struct".into(),
        },
        2 => {
            let n = *rng.pick(&[0usize, 2, 3]);
            Decl {
                src: format!("{cattrs}{vis}struct Recv{gen}({}){wh};", tuple_fields(rng, n)),
                shape: format!("tuple-struct-{n}"),
            }
        }
        3..=6 => {
            let n = rng.range(0, 4);
            Decl {
                src: format!("{cattrs}{vis}struct Recv{gen}{wh} {{ {} }}", named_fields(rng, n)),
                shape: format!("named-struct-{}", n.min(2)),
            }
        }
        7..=10 => {
            let n = rng.range(0, 5);
            let mut vs = vec![];
            for i in 0..n {
                let va = attrs(rng, Level::Variant, 5);
                let body = match rng.below(6) {
                    0 | 1 => String::new(),
                    2 => format!("({})", tuple_fields(rng, 1)),
                    3 => {
                        let k = *rng.pick(&[0usize, 2, 3]);
                        format!("({})", tuple_fields(rng, k))
                    }
                    _ => {
                        let k = rng.range(0, 3);
                        format!("{{ {} }}", named_fields(rng, k))
                    }
                };
                let disc = if body.is_empty() && rng.chance(1, 4) { format!(" = {}", i * 3) } else { String::new() };
                vs.push(format!("{va}V{i}{body}{disc}"));
            }
            Decl {
                src: format!("{cattrs}{vis}enum Recv{gen}{wh} {{ {} }}", vs.join(", ")),
                shape: format!("enum-{}", n.min(2)),
            }
        }
        _ => {
            let k = rng.range(1, 3);
            Decl {
                src: format!("{cattrs}{vis}union Recv{gen}{wh} {{ {} }}", named_fields(rng, k)),
                shape: "union".into(),
            }
        }
    }
}

/// `attributes(..)` (or none), one of the spellings of `forward_attrs`, an `attrs` field (or none) and a few
/// plain fields: every combination is either accepted or refused with a diagnostic
fn forwarding_decl(rng: &mut Rng) -> Decl {
    let mut copts: Vec<String> = vec![];
    match rng.below(5) {
        0 => {}
        1 => copts.push("attributes()".into()),
        2 => copts.push("attributes(a, b::c)".into()),
        _ => copts.push("attributes(a)".into()),
    }
    copts.push((*rng.pick(&["forward_attrs", "forward_attrs()", "forward_attrs[]", "forward_attrs{}", "forward_attrs(doc)", "forward_attrs(doc, allow, ::x::y, r#type)", "forward_attrs(doc,)"])).to_string());
    if rng.chance(1, 4) {
        copts.push((*rng.pick(&["default", "allow_unknown_fields", "rename_all = \"camelCase\"", "supports(struct_named)"])).to_string());
    }
    if rng.coin() {
        copts.reverse();
    }
    let cattr = if rng.chance(1, 4) {
        copts.iter().map(|o| format!("#[darling({o})] ")).collect::<String>()
    } else {
        format!("#[darling({})] ", copts.join(", "))
    };
    let mut fields: Vec<String> = vec![];
    if !rng.chance(1, 5) {
        fields.push((*rng.pick(&["attrs: Vec<syn::Attribute>", "pub attrs: Vec<syn::Attribute>", "#[darling(with = f)] attrs: usize", "#[darling(with = \"a::f\")] attrs: T"])).to_string());
    }
    for name in ["lorem", "r#type", "x1"] {
        if rng.coin() {
            fields.push(format!("{name}: {}", rng.pick(&["u8", "String", "Option<u8>", "bool"])));
        }
    }
    if rng.coin() {
        fields.reverse();
    }
    Decl {
        src: format!("{cattr}pub struct Recv {{ {} }}", fields.join(", ")),
        shape: "forwarding-struct".into(),
    }
}
