//! E1: in-process monitors over darling's library API (see /verif/DESIGN.md §1, §2).

mod errtree;
mod c05;
mod c06;
mod c07;
mod c10;
mod declgen;
mod c11;
mod c12;
mod c13;
mod wrappers_gen;
mod c14;
mod c15;
mod c16;
mod c17;
mod c18;
mod c19;
mod gram;
mod probes_gen;
mod tok;

use vfcommon::Args;

fn main() {
    let args = Args::parse();
    vfcommon::install_quiet_panic_hook();
    let code = match args.prop.as_str() {
        "C04" => errtree::run(&args, errtree::Mode::Algebra),
        "C03" if args.extra.get("part").map(|s| s.as_str()) == Some("map-spans") => c14::run(&args),
        "C03" => errtree::run(&args, errtree::Mode::Spans),
        "C05" => c05::run(&args),
        "C06" if args.extra.get("part").map(|s| s.as_str()) == Some("malformed-values") => c10::run_malformed(&args),
        "C06" => c06::run(&args),
        "C07" => c07::run(&args),
        "C10" => c10::run(&args),
        "C11" => c11::run(&args),
        "C12" => c12::run(&args),
        "C13" => c13::run(&args),
        "C14" => c14::run(&args),
        "C15" => c15::run(&args),
        "C16" => c16::run(&args),
        "C17" => c17::run(&args),
        "C18" => c18::run(&args),
        "C19" => c19::run(&args),
        "show" => {
            // debugging aid: print what every derive returns for --input <decl>
            let src = args.extra.get("input").cloned().unwrap_or_default();
            let di: syn::DeriveInput = syn::parse_str(&src).expect("parses");
            for (name, f) in c06::derives() {
                match vfcommon::catch(|| f(&di)) {
                    vfcommon::Caught::Ok(ts) => match c06::classify(ts.clone(), name) {
                        Ok(cl) => println!("{name}: impls={} errors={:?}", cl.impls.len(), cl.errors),
                        Err(e) => println!("{name}: {e}\n{ts}"),
                    },
                    vfcommon::Caught::Panic { msg, loc } => println!("{name}: PANIC {msg} at {loc}"),
                }
            }
            0
        }
        other => vfcommon::die(&format!("direct: no monitor for {other}")),
    };
    std::process::exit(code);
}
