//! C19 (usage half): generic-parameter usage analysis against planted expectations.
//! Types are *constructed* from a grammar; every identifier / lifetime is placed at a
//! position labelled use / use-for-declaration-only / non-use, so the expected answer is
//! known without any analysis of the type.

use darling::ast;
use darling::usage::{CollectLifetimes, CollectTypeParams, GenericsExt, IdentSet, LifetimeSet, Options, Purpose, UsesLifetimes, UsesTypeParams};
use serde_json::json;
use std::collections::BTreeSet;
use std::time::Instant;
use vfcommon::{catch, conclude, fan_out, Args, Caught, Collector, Outcome, Rng};

const NAMES: [&str; 9] = ["T", "U", "V", "W", "Vec", "Foo", "Bar", "u8", "String"];
const LTS: [&str; 4] = ["'a", "'b", "'c", "'static"];

#[derive(Default, Clone, Debug)]
struct Planted {
    ty: BTreeSet<String>,
    ty_decl: BTreeSet<String>,
    lt: BTreeSet<String>,
    lt_decl: BTreeSet<String>,
    forms: BTreeSet<&'static str>,
}

impl Planted {
    fn absorb(&mut self, o: Planted) {
        self.ty.extend(o.ty);
        self.ty_decl.extend(o.ty_decl);
        self.lt.extend(o.lt);
        self.lt_decl.extend(o.lt_decl);
        self.forms.extend(o.forms);
    }
    /// everything planted in `o` counts only for declaration purposes (inside a qself)
    fn absorb_decl(&mut self, o: Planted) {
        self.ty_decl.extend(o.ty);
        self.ty_decl.extend(o.ty_decl);
        self.lt_decl.extend(o.lt);
        self.lt_decl.extend(o.lt_decl);
        self.forms.extend(o.forms);
    }
}

fn name(rng: &mut Rng) -> &'static str {
    *rng.pick(&NAMES)
}
fn lifetime(rng: &mut Rng) -> &'static str {
    *rng.pick(&LTS)
}

/// the lifetime as it is written: now and then as a raw identifier (`'r#a` is `'a`)
fn spell_lt(rng: &mut Rng, l: &str, p: &mut Planted) -> String {
    if l != "'static" && l != "'_" && rng.chance(1, 8) {
        p.forms.insert("raw-lifetime");
        format!("'r#{}", &l[1..])
    } else {
        l.to_string()
    }
}

fn generic_args(rng: &mut Rng, depth: usize, p: &mut Planted) -> String {
    let n = rng.range(1, 3);
    let mut parts = vec![];
    // lifetimes must come first to be valid Rust; syn does not care, rustc is not involved
    for _ in 0..n {
        match rng.below(10) {
            0 | 1 => {
                let l = lifetime(rng);
                p.lt.insert(l.to_string());
                p.forms.insert("arg-lifetime");
                parts.push(spell_lt(rng, l, p));
            }
            2 => {
                // const-expression argument: a non-use position
                p.forms.insert("arg-const-block");
                parts.push(format!("{{ {}::N }}", name(rng)));
            }
            3 => {
                p.forms.insert("arg-assoc-type");
                parts.push(format!("Item = {}", ty(rng, depth, p)));
            }
            4 => {
                p.forms.insert("arg-constraint");
                let b = name(rng);
                p.ty.insert(b.to_string());
                parts.push(format!("Item: {}<{}>", b, ty(rng, depth, p)));
            }
            5 => {
                p.forms.insert("arg-const-lit");
                parts.push("4".to_string());
            }
            6 => {
                // generic arguments on the name of an associated-type binding / constraint are uses too
                p.forms.insert("arg-assoc-type-generic");
                let g = ty(rng, depth, p);
                if rng.coin() {
                    parts.push(format!("Item<{g}> = {}", ty(rng, depth, p)));
                } else {
                    let b = name(rng);
                    p.ty.insert(b.to_string());
                    parts.push(format!("Item<{g}>: {b}"));
                }
            }
            _ => {
                p.forms.insert("arg-type");
                parts.push(ty(rng, depth, p));
            }
        }
    }
    format!("<{}>", parts.join(", "))
}

fn path(rng: &mut Rng, depth: usize, p: &mut Planted) -> String {
    let mut s = String::new();
    let global = rng.chance(1, 5);
    if global {
        s.push_str("::");
        p.forms.insert("global-path");
    }
    let n = rng.weighted(&[6, 3, 1]) + 1;
    for i in 0..n {
        if i > 0 {
            s.push_str("::");
        }
        let id = name(rng);
        if i == 0 && !global {
            p.ty.insert(id.to_string());
            p.forms.insert(if n == 1 { "bare-ident" } else { "leading-segment" });
        } else {
            p.forms.insert(if i == 0 { "after-global-colon" } else { "path-tail" });
        }
        if i == 0 && !global && rng.chance(1, 10) && !["Self", "self", "crate", "super"].contains(&id) {
            // the raw spelling denotes the same parameter
            p.forms.insert("raw-ident");
            s.push_str("r#");
        }
        s.push_str(id);
        if depth > 0 && rng.chance(1, 3) {
            s.push_str(&generic_args(rng, depth - 1, p));
        }
    }
    if depth > 0 && rng.chance(1, 8) {
        // parenthesized arguments on the last segment
        p.forms.insert("parenthesized-args");
        let a = ty(rng, depth - 1, p);
        let b = ty(rng, depth - 1, p);
        s.push_str(&format!("({a}) -> {b}"));
    }
    s
}

fn bounds(rng: &mut Rng, depth: usize, p: &mut Planted) -> String {
    let mut parts = vec![];
    let lead = path(rng, depth, p);
    parts.push(lead);
    if rng.coin() {
        let l = lifetime(rng);
        p.lt.insert(l.to_string());
        p.forms.insert("bound-lifetime");
        parts.push(spell_lt(rng, l, p));
    }
    if rng.chance(1, 3) {
        parts.push("?Sized".into());
    }
    if rng.chance(1, 3) {
        p.forms.insert("hrtb-bound");
        parts.push(format!("for<'x> Fn(&'x {})", ty(rng, depth.saturating_sub(1), p)));
    }
    parts.join(" + ")
}

fn ty(rng: &mut Rng, depth: usize, p: &mut Planted) -> String {
    if depth == 0 {
        return match rng.below(6) {
            0 => {
                p.forms.insert("infer");
                "_".into()
            }
            1 => {
                p.forms.insert("never");
                "!".into()
            }
            _ => path(rng, 0, p),
        };
    }
    let d = depth - 1;
    match rng.below(17) {
        0 | 1 | 2 | 3 => path(rng, depth, p),
        4 => {
            p.forms.insert("reference");
            let mut s = String::from("&");
            if rng.coin() {
                let l = lifetime(rng);
                p.lt.insert(l.to_string());
                s.push_str(&spell_lt(rng, l, p));
                s.push(' ');
            }
            if rng.coin() {
                s.push_str("mut ");
            }
            s + &ty(rng, d, p)
        }
        5 => {
            p.forms.insert("pointer");
            format!("*{} {}", rng.pick(&["const", "mut"]), ty(rng, d, p))
        }
        6 => {
            p.forms.insert("slice");
            format!("[{}]", ty(rng, d, p))
        }
        7 => {
            p.forms.insert("array");
            format!("[{}; 4]", ty(rng, d, p))
        }
        8 => {
            p.forms.insert("tuple");
            let n = rng.range(0, 3);
            let parts: Vec<String> = (0..n).map(|_| ty(rng, d, p)).collect();
            if n == 1 {
                format!("({},)", parts[0])
            } else {
                format!("({})", parts.join(", "))
            }
        }
        9 => {
            p.forms.insert("paren");
            format!("({})", ty(rng, d, p))
        }
        10 => {
            p.forms.insert("bare-fn");
            let n = rng.range(0, 2);
            let args: Vec<String> = (0..n)
                .map(|i| if rng.coin() { format!("arg{i}: {}", ty(rng, d, p)) } else { ty(rng, d, p) })
                .collect();
            let prefix = *rng.pick(&["", "unsafe ", "extern \"C\" ", "for<'x> "]);
            let variadic = if prefix.contains("extern") && n > 0 && rng.coin() { ", ..." } else { "" };
            let ret = if rng.coin() { format!(" -> {}", ty(rng, d, p)) } else { String::new() };
            format!("{prefix}fn({}{variadic}){ret}", args.join(", "))
        }
        11 | 12 => {
            p.forms.insert("trait-object");
            format!("dyn {}", bounds(rng, d, p))
        }
        13 => {
            p.forms.insert("impl-trait");
            format!("impl {}", bounds(rng, d, p))
        }
        14 => {
            // macro body: a non-use position for both kinds of parameter
            p.forms.insert("macro-body");
            format!("{}!({} {})", rng.pick(&["mac", "other"]), name(rng), lifetime(rng))
        }
        _ => {
            // <Q as Trait<..>>::Name — Q counts only for declaration purposes
            p.forms.insert("qself");
            let mut inner = Planted::default();
            let q = ty(rng, d, &mut inner);
            p.absorb_decl(inner);
            // (a qself without `as Trait` is a qself all the same: `<Vec<T>>::Item`)
            if rng.chance(1, 4) {
                p.forms.insert("qself-without-trait");
                return format!("<{q}>::{}", name(rng));
            }
            let tr = name(rng);
            p.ty.insert(tr.to_string());
            let args = if rng.coin() { generic_args(rng, d, p) } else { String::new() };
            format!("<{q} as {tr}{args}>::{}", name(rng))
        }
    }
}

/// The queried set. A member may be spelled as a raw identifier, as it is when the receiver declares
/// `<r#T>` or `<'r#a>`: the same parameter (which members are, depends on the set only).
fn idents(names: &BTreeSet<String>) -> IdentSet {
    let sp = proc_macro2::Span::call_site();
    names.iter().map(|n| if (n.len() + names.len()) % 3 == 0 { syn::Ident::new_raw(n, sp) } else { syn::Ident::new(n, sp) }).collect()
}
fn lts(names: &BTreeSet<String>) -> LifetimeSet {
    let sp = proc_macro2::Span::call_site();
    names
        .iter()
        .map(|n| {
            if (n.len() + names.len()) % 3 == 1 && n != "'static" && n != "'_" {
                syn::Lifetime { apostrophe: sp, ident: syn::Ident::new_raw(&n[1..], sp) }
            } else {
                syn::Lifetime::new(n, sp)
            }
        })
        .collect()
}

fn expected(planted: &BTreeSet<String>, decl: &BTreeSet<String>, purpose: Purpose, query: &BTreeSet<String>) -> BTreeSet<String> {
    let mut all = planted.clone();
    if purpose == Purpose::Declare {
        all.extend(decl.iter().cloned());
    }
    all.intersection(query).cloned().collect()
}

struct Two {
    a: syn::Type,
    b: syn::Type,
}
darling::uses_type_params!(Two, a, b);
darling::uses_lifetimes!(Two, a, b);

fn random_query(rng: &mut Rng, pool: &[&str], extra: &[&str]) -> BTreeSet<String> {
    let mut q = BTreeSet::new();
    for n in pool {
        if rng.coin() {
            q.insert(n.to_string());
        }
    }
    for n in extra {
        if rng.chance(1, 3) {
            q.insert(n.to_string());
        }
    }
    q
}

pub fn run_case(case_seed: u64, c: &mut Collector) {
    let mut rng = Rng::new(case_seed);
    let depth = rng.range(0, 5);
    // 1..4 field types
    let nf = rng.range(1, 4);
    let mut fields: Vec<(String, Planted)> = vec![];
    for _ in 0..nf {
        let mut p = Planted::default();
        let t = ty(&mut rng, depth, &mut p);
        fields.push((t, p));
    }
    let mut parsed: Vec<syn::Type> = vec![];
    for (t, _) in &fields {
        match syn::parse_str::<syn::Type>(t) {
            Ok(ty) => parsed.push(ty),
            Err(_) => {
                c.discarded += 1;
                return;
            }
        }
    }
    let tq = random_query(&mut rng, &NAMES, &["Zed", "Item", "N", "mac"]);
    let lq = random_query(&mut rng, &LTS, &["'z", "'y"]);
    let tset = idents(&tq);
    let lset = lts(&lq);
    let mut fail = |c: &mut Collector, class: &str, what: String| {
        c.violation(
            format!("C19:usage:{class}"),
            what.clone(),
            json!({"case_seed": case_seed, "types": fields.iter().map(|f| f.0.clone()).collect::<Vec<_>>(), "type_query": tq, "lifetime_query": lq, "failure": what}),
        );
    };
    let names_of = |s: darling::usage::IdentRefSet<'_>| -> BTreeSet<String> { s.into_iter().map(|i| i.to_string().replace("r#", "")).collect() };
    let lts_of = |s: darling::usage::LifetimeRefSet<'_>| -> BTreeSet<String> { s.into_iter().map(|i| i.to_string().replace("r#", "")).collect() };
    for purpose in [Purpose::BoundImpl, Purpose::Declare] {
        let opts: Options = purpose.into();
        let mut union_t = BTreeSet::new();
        let mut union_l = BTreeSet::new();
        for ((text, p), t) in fields.iter().zip(parsed.iter()) {
            c.eval();
            let want_t = expected(&p.ty, &p.ty_decl, purpose, &tq);
            let want_l = expected(&p.lt, &p.lt_decl, purpose, &lq);
            match catch(|| (names_of(t.uses_type_params(&opts, &tset)), t.uses_type_params_cloned(&opts, &tset), lts_of(t.uses_lifetimes(&opts, &lset)), t.uses_lifetimes_cloned(&opts, &lset))) {
                Caught::Panic { msg, loc } => fail(c, &format!("panic:{}", vfcommon::short_loc(&loc)), format!("usage analysis of `{text}` panicked: {msg}")),
                Caught::Ok((got_t, got_tc, got_l, got_lc)) => {
                    if got_t != want_t {
                        let extra: Vec<_> = got_t.difference(&want_t).collect();
                        let missing: Vec<_> = want_t.difference(&got_t).collect();
                        let class = if !extra.is_empty() && extra.iter().any(|e| !tq.contains(*e)) {
                            "type-outside-query"
                        } else if !extra.is_empty() {
                            "type-non-use-reported"
                        } else {
                            "type-use-missed"
                        };
                        fail(c, class, format!("`{text}` ({purpose:?}) with query {tq:?}: got {got_t:?}, planted {want_t:?} (extra {extra:?}, missing {missing:?})"));
                    }
                    if names_of(got_tc.iter().collect()) != got_t {
                        fail(c, "cloned-differs", format!("`{text}`: uses_type_params_cloned differs from uses_type_params"));
                    }
                    if got_l != want_l {
                        let extra: Vec<_> = got_l.difference(&want_l).collect();
                        let class = if !extra.is_empty() { "lifetime-non-use-reported" } else { "lifetime-use-missed" };
                        fail(c, class, format!("`{text}` ({purpose:?}) with query {lq:?}: got {got_l:?}, planted {want_l:?}"));
                    }
                    if lts_of(got_lc.iter().collect()) != got_l {
                        fail(c, "cloned-differs", format!("`{text}`: uses_lifetimes_cloned differs from uses_lifetimes"));
                    }
                    union_t.extend(want_t.iter().cloned());
                    union_l.extend(want_l.iter().cloned());
                }
            }
            for f in &p.forms {
                c.count(&format!("form.{f}"));
            }
            let forms: Vec<_> = p.forms.iter().collect();
            c.nontrivial(&(forms, purpose == Purpose::Declare, want_t.len().min(3), want_l.len().min(2)));
        }
        // collections: the answer is the union of the members' answers
        let named = format!("struct S {{ {} }}", fields.iter().enumerate().map(|(i, f)| format!("f{i}: {}", f.0)).collect::<Vec<_>>().join(", "));
        let tuple = format!("struct S({});", fields.iter().map(|f| f.0.clone()).collect::<Vec<_>>().join(", "));
        let en = format!("enum E {{ A {{ {} }}, B({}), C }}", fields.iter().enumerate().map(|(i, f)| format!("f{i}: {}", f.0)).collect::<Vec<_>>().join(", "), fields[0].0);
        for (label, src) in [("named-struct", &named), ("tuple-struct", &tuple), ("enum", &en)] {
            let Ok(di) = syn::parse_str::<syn::DeriveInput>(src) else {
                c.discarded += 1;
                continue;
            };
            c.eval();
            let want_t: BTreeSet<String> = if label == "enum" { union_t.clone() } else { union_t.clone() };
            let r = catch(|| {
                let a = names_of(di.data.uses_type_params(&opts, &tset));
                let b = lts_of(di.data.uses_lifetimes(&opts, &lset));
                let (c1, c2) = match &di.data {
                    syn::Data::Struct(s) => (names_of(s.fields.iter().collect_type_params(&opts, &tset)), lts_of(s.fields.iter().collect_lifetimes(&opts, &lset))),
                    syn::Data::Enum(e) => (names_of(e.variants.iter().collect_type_params(&opts, &tset)), lts_of(e.variants.iter().collect_lifetimes(&opts, &lset))),
                    _ => unreachable!(),
                };
                let cc = match &di.data {
                    syn::Data::Struct(s) => s.fields.iter().collect_type_params_cloned(&opts, &tset),
                    syn::Data::Enum(e) => e.variants.iter().collect_type_params_cloned(&opts, &tset),
                    _ => unreachable!(),
                };
                // darling's own body representation
                let d = ast::Data::<syn::Variant, syn::Field>::try_from(&di.data).ok().map(|d| (names_of(d.uses_type_params(&opts, &tset)), lts_of(d.uses_lifetimes(&opts, &lset))));
                (a, b, c1, c2, names_of(cc.iter().collect()), d)
            });
            match r {
                Caught::Panic { msg, loc } => fail(c, &format!("panic:{}", vfcommon::short_loc(&loc)), format!("usage analysis of `{src}` panicked: {msg}")),
                Caught::Ok((a, b, c1, c2, cc, d)) => {
                    if a != want_t || b != union_l {
                        fail(c, "collection-not-union", format!("{label} `{src}` ({purpose:?}): body answers {a:?} / {b:?}, union of members is {want_t:?} / {union_l:?}"));
                    }
                    if c1 != want_t || c2 != union_l || cc != want_t {
                        fail(c, "collect-not-union", format!("{label} `{src}` ({purpose:?}): collect_* answers {c1:?} / {c2:?}, union of members is {want_t:?} / {union_l:?}"));
                    }
                    if let Some((da, db)) = d {
                        if da != want_t || db != union_l {
                            fail(c, "ast-data-not-union", format!("{label} `{src}` ({purpose:?}): ast::Data answers {da:?} / {db:?}, union is {want_t:?} / {union_l:?}"));
                        }
                    }
                }
            }
        }
        // Vec / Option / user struct through the public macros
        c.eval();
        let v: Vec<syn::Type> = parsed.clone();
        let two = Two {
            a: parsed[0].clone(),
            b: parsed[parsed.len() - 1].clone(),
        };
        let want_two_t: BTreeSet<String> = expected(&fields[0].1.ty, &fields[0].1.ty_decl, purpose, &tq).union(&expected(&fields[nf - 1].1.ty, &fields[nf - 1].1.ty_decl, purpose, &tq)).cloned().collect();
        let want_two_l: BTreeSet<String> = expected(&fields[0].1.lt, &fields[0].1.lt_decl, purpose, &lq).union(&expected(&fields[nf - 1].1.lt, &fields[nf - 1].1.lt_decl, purpose, &lq)).cloned().collect();
        match catch(|| (names_of(v.uses_type_params(&opts, &tset)), lts_of(v.uses_lifetimes(&opts, &lset)), names_of(two.uses_type_params(&opts, &tset)), lts_of(two.uses_lifetimes(&opts, &lset)), names_of(Some(parsed[0].clone()).uses_type_params(&opts, &tset)), names_of(None::<syn::Type>.uses_type_params(&opts, &tset)))) {
            Caught::Panic { msg, loc } => fail(c, &format!("panic:{}", vfcommon::short_loc(&loc)), format!("usage analysis panicked: {msg}")),
            Caught::Ok((vt, vl, tt, tl, some, none)) => {
                if vt != union_t || vl != union_l {
                    fail(c, "vec-not-union", format!("Vec of {:?} ({purpose:?}): {vt:?} / {vl:?}, union is {union_t:?} / {union_l:?}", fields.iter().map(|f| &f.0).collect::<Vec<_>>()));
                }
                if tt != want_two_t || tl != want_two_l {
                    fail(c, "macro-struct-not-union", format!("uses_type_params!/uses_lifetimes! struct ({purpose:?}): {tt:?} / {tl:?}, union is {want_two_t:?} / {want_two_l:?}"));
                }
                if some != expected(&fields[0].1.ty, &fields[0].1.ty_decl, purpose, &tq) || !none.is_empty() {
                    fail(c, "option", format!("Option<Type> answers {some:?} / {none:?}"));
                }
            }
        }
    }
    // declared generics
    c.eval();
    let decl_t = random_query(&mut rng, &["T", "U", "V"], &[]);
    let decl_l = random_query(&mut rng, &["'a", "'b"], &[]);
    let mut params: Vec<String> = decl_l.iter().cloned().collect();
    params.extend(decl_t.iter().map(|t| if rng.coin() { format!("{t}: Clone") } else { t.clone() }));
    if rng.coin() {
        params.push("const N: usize".into());
    }
    let src = format!("struct G<{}>;", params.join(", "));
    if let Ok(di) = syn::parse_str::<syn::DeriveInput>(&src) {
        let gt: BTreeSet<String> = di.generics.declared_type_params().iter().map(|i| i.to_string()).collect();
        let gl: BTreeSet<String> = di.generics.declared_lifetimes().iter().map(|i| i.to_string()).collect();
        if gt != decl_t || gl != decl_l {
            fail(c, "declared", format!("`{src}`: declared {gt:?} / {gl:?}"));
        }
    }
    if c.samples.len() < c.max_samples && case_seed % 5003 == 0 {
        c.sample(|| json!({"types": fields.iter().map(|f| f.0.clone()).collect::<Vec<_>>(), "type_query": tq, "planted_type_uses": fields.iter().map(|f| f.1.ty.clone()).collect::<Vec<_>>(), "planted_decl_only": fields.iter().map(|f| f.1.ty_decl.clone()).collect::<Vec<_>>(), "lifetime_query": lq, "planted_lifetime_uses": fields.iter().map(|f| f.1.lt.clone()).collect::<Vec<_>>()}));
    }
}

pub fn run(args: &Args) -> i32 {
    if args.extra.get("part").map(|s| s.as_str()) == Some("bounds") {
        return run_bounds(args);
    }
    let started = Instant::now();
    if let Some(p) = &args.replay {
        let v: serde_json::Value = serde_json::from_str(&std::fs::read_to_string(p).unwrap_or_default()).unwrap_or_default();
        let seed = v["witness"]["case_seed"].as_u64().unwrap_or_else(|| vfcommon::die("replay file has no case_seed"));
        let mut c = Collector::new();
        run_case(seed, &mut c);
        c.nontrivial(&0u8);
        c.nontrivial(&1u8);
        return conclude(args, started, c, outcome(0));
    }
    let total = args.budget(60_000, 5_000_000);
    let c = fan_out(args, 19, total, |_, rng, share, c| {
        for i in 0..share {
            if i % 1024 == 0 {
                proc_macro2::extra::invalidate_current_thread_spans();
            }
            let cs = rng.next_u64();
            run_case(cs, c);
        }
    });
    conclude(args, started, c, outcome(500))
}

fn outcome(min: u64) -> Outcome {
    Outcome {
        level: "exploration",
        rule: "types constructed from a grammar over the syn::Type forms (paths with global / leading / tail segments and generic, assoc-type, constraint, const-block, lifetime and parenthesized arguments; references, pointers, slices, arrays, tuples, parens, bare fns incl. variadic/extern/HRTB, trait objects, impl trait, macros, qself; depth<=5) with every identifier and lifetime planted at a labelled position; expected = planted uses (plus qself contents for Purpose::Declare) intersected with a random query set that also contains absent and filler names; checked for uses_*/uses_*_cloned, collect_*, syn::Fields / DataStruct / DataEnum / Data / ast::Data / Vec / Option / a user struct through the public macros (= union of members), and GenericsExt. Distinct = (set of forms in the type, purpose, #expected type hits, #expected lifetime hits).".into(),
        assumptions: vec!["a trait path's leading segment is positionally 'an unqualified leading path segment' and is labelled a use; HRTB-bound lifetime names are kept disjoint from the query names".into()],
        min_nontrivial: min,
        exhaustive: None,
        extra: Default::default(),
    }
}

// ====================================================================== bounds half

use crate::c06::classify;
use crate::c10::{Tr, ALL_TR};
use crate::tok::canon_of;

struct GParam {
    text: String,
    kind: u8, // 0 lifetime, 1 type, 2 const
    name: String,
    bounds: Vec<String>,
}

fn bounds_case(case_seed: u64, c: &mut Collector) {
    let mut rng = Rng::new(case_seed);
    let tr = *rng.pick(&ALL_TR);
    // generics
    let mut params: Vec<GParam> = vec![];
    for l in ["'a", "'b"] {
        if rng.coin() {
            params.push(GParam { text: l.to_string(), kind: 0, name: l.to_string(), bounds: vec![] });
        }
    }
    for t in ["T", "U", "V", "W"] {
        if rng.chance(3, 5) {
            let bounds: Vec<String> = match rng.below(4) {
                0 => vec![],
                1 => vec!["Clone".into()],
                2 => vec!["Clone".into(), "?Sized".into()],
                _ => vec!["::std::fmt::Debug".into(), "'static".into()],
            };
            let default = if rng.chance(1, 6) { " = u8" } else { "" };
            let text = if bounds.is_empty() { format!("{t}{default}") } else { format!("{t}: {}{default}", bounds.join(" + ")) };
            params.push(GParam { text, kind: 1, name: t.to_string(), bounds });
        }
    }
    if rng.chance(1, 4) {
        params.push(GParam { text: "const N: usize".into(), kind: 2, name: "N".into(), bounds: vec![] });
    }
    let declared: BTreeSet<String> = params.iter().filter(|p| p.kind == 1).map(|p| p.name.clone()).collect();
    let where_clause = if !declared.is_empty() && rng.chance(1, 3) {
        let t = declared.iter().next().unwrap().clone();
        format!(" where {t}: Default, Vec<{t}>: Clone")
    } else {
        String::new()
    };
    let gtext = if params.is_empty() { String::new() } else { format!("<{}>", params.iter().map(|p| p.text.clone()).collect::<Vec<_>>().join(", ")) };
    // body
    let mut expected: BTreeSet<String> = BTreeSet::new();
    let mut forms: BTreeSet<&'static str> = BTreeSet::new();
    let mut field = |rng: &mut Rng, name: Option<&str>, variant_skipped: bool, expected: &mut BTreeSet<String>, forms: &mut BTreeSet<&'static str>| -> String {
        let mut p = Planted::default();
        let depth = rng.range(0, 3);
        let t = ty(rng, depth, &mut p);
        let skip = match rng.below(8) {
            0 => Some("skip"),
            1 => Some("skip = true"),
            2 => Some("skip = false"),
            _ => None,
        };
        // (options in combination too: a field that has its own converter and a default, or collects every
        // occurrence, is parsed like any other and its parameters need the bound)
        let other = match rng.below(9) {
            0 => Some("default"),
            1 => Some("with = conv"),
            2 => Some("multiple"),
            3 => Some("map = f"),
            4 => Some("with = conv, default"),
            5 => Some("with = conv, multiple"),
            6 => Some("default = \"mk\", with = conv, map = f"),
            _ => None,
        };
        // a newtype hands its input to its only field whatever that field says, so `skip` there does
        // not make the field unparsed
        let skipped = matches!(skip, Some("skip") | Some("skip = true")) && name.is_some();
        if name.is_none() && skip.is_some() {
            forms.insert("newtype-field-says-skip");
        }
        if !skipped && !variant_skipped {
            expected.extend(p.ty.iter().filter(|n| declared.contains(*n)).cloned());
        }
        forms.extend(p.forms.iter().copied());
        forms.insert(if skipped { "field-skipped" } else { "field-parsed" });
        let opts: Vec<&str> = skip.into_iter().chain(other).collect();
        let attr = if opts.is_empty() { String::new() } else { format!("#[darling({})] ", opts.join(", ")) };
        match name {
            Some(n) => format!("{attr}{n}: {t}"),
            None => format!("{attr}{t}"),
        }
    };
    let names = ["fa", "fb", "fc", "fd"];
    let cattr = if tr != Tr::Meta { "#[darling(attributes(x))] " } else { "" };
    let is_enum = tr == Tr::Meta && rng.chance(1, 3);
    // the trait the parsed fields are converted by: a newtype receiver hands the whole element to
    // its only field, so that field is converted by the derived trait itself
    let mut conv_trait = "FromMeta";
    let src = if is_enum {
        let nv = rng.range(1, 4);
        let mut vs = vec![];
        for i in 0..nv {
            let vskip = rng.chance(1, 5);
            let vattr = if vskip { "#[darling(skip)] " } else { "" };
            forms.insert(if vskip { "variant-skipped" } else { "variant-parsed" });
            let body = match rng.below(3) {
                0 => String::new(),
                1 => format!("({})", field(&mut rng, None, vskip, &mut expected, &mut forms)),
                _ => {
                    let k = rng.range(1, 3);
                    format!(" {{ {} }}", (0..k).map(|j| field(&mut rng, Some(names[j]), vskip, &mut expected, &mut forms)).collect::<Vec<_>>().join(", "))
                }
            };
            vs.push(format!("{vattr}V{i}{body}"));
        }
        format!("enum Recv{gtext}{where_clause} {{ {} }}", vs.join(", "))
    } else if matches!(tr, Tr::Meta | Tr::DeriveInput | Tr::Attributes) && rng.chance(1, 6) {
        forms.insert("newtype-struct");
        conv_trait = tr.name();
        format!("{cattr}struct Recv{gtext}({}){where_clause};", field(&mut rng, None, false, &mut expected, &mut forms))
    } else {
        let k = rng.range(0, 4);
        let mut fs: Vec<String> = (0..k).map(|j| field(&mut rng, Some(names[j]), false, &mut expected, &mut forms)).collect();
        // a flatten member is parsed (it receives the items no other field claims): its type's
        // parameters need the conversion bound like any other parsed field's
        if rng.chance(1, 4) {
            let mut p = Planted::default();
            let depth = rng.range(0, 2);
            let t = ty(&mut rng, depth, &mut p);
            expected.extend(p.ty.iter().filter(|n| declared.contains(*n)).cloned());
            forms.extend(p.forms.iter().copied());
            forms.insert("field-flatten");
            fs.push(format!("#[darling(flatten)] rest: {t}"));
        }
        if tr != Tr::Meta && rng.coin() {
            // a magic field never takes part in the bound, whatever its type says; for FromAttributes
            // (no element parts to pass on) `ident` is an ordinary, parsed field
            let p = declared.iter().next().cloned();
            if tr == Tr::Attributes {
                forms.insert("ident-as-ordinary-field");
                if let Some(p) = &p {
                    expected.insert(p.clone());
                }
            } else {
                forms.insert("magic-field");
            }
            fs.push(format!("ident: Wrapper<{}>", p.unwrap_or_else(|| "u8".into())));
        }
        format!("{cattr}struct Recv{gtext}{where_clause} {{ {} }}", fs.join(", "))
    };
    let Ok(di) = syn::parse_str::<syn::DeriveInput>(&src) else {
        c.discarded += 1;
        return;
    };
    c.eval();
    let name = tr.name();
    let mut fail = |c: &mut Collector, class: &str, what: String| {
        c.violation(format!("C19:bounds:{class}"), what.clone(), json!({"case_seed": case_seed, "input": src, "derive": name, "expected_bounded": expected, "failure": what}));
    };
    let ts = match catch(|| (tr.derive())(&di)) {
        Caught::Ok(ts) => ts,
        Caught::Panic { msg, loc } => {
            fail(c, &format!("panic:{}", vfcommon::short_loc(&loc)), format!("derive({name}) panicked on `{src}`: {msg}"));
            return;
        }
    };
    let cl = match classify(ts, name) {
        Ok(cl) => cl,
        Err(e) => {
            fail(c, "unparsable-output", format!("derive({name}) on `{src}`: {e}"));
            return;
        }
    };
    if cl.impls.len() != 1 {
        // a declaration the derive rejects is C10's business; the generator only emits accepted ones
        fail(c, "no-impl", format!("derive({name}) on `{src}` emitted {} impls, diagnostics {:?}", cl.impls.len(), cl.errors));
        return;
    }
    let im = &cl.impls[0];
    // generics: same parameters in the same order; type params carry their own bounds plus at most the one added bound
    let got: Vec<&syn::GenericParam> = im.generics.params.iter().collect();
    if got.len() != params.len() {
        fail(c, "param-count", format!("`{src}`: impl has {} generic parameters, the receiver {}", got.len(), params.len()));
    } else {
        let mut bounded: BTreeSet<String> = BTreeSet::new();
        for (g, p) in got.iter().zip(params.iter()) {
            match (g, p.kind) {
                (syn::GenericParam::Lifetime(l), 0) => {
                    if l.lifetime.to_string() != p.name {
                        fail(c, "param-changed", format!("`{src}`: lifetime `{}` became `{}`", p.name, l.lifetime));
                    }
                }
                (syn::GenericParam::Const(k), 2) => {
                    if k.ident != p.name {
                        fail(c, "param-changed", format!("`{src}`: const param `{}` became `{}`", p.name, k.ident));
                    }
                }
                (syn::GenericParam::Type(t), 1) => {
                    if t.ident != p.name {
                        fail(c, "param-changed", format!("`{src}`: type param `{}` became `{}`", p.name, t.ident));
                    }
                    let gb: Vec<String> = t.bounds.iter().map(canon_of).collect();
                    let own: Vec<String> = p.bounds.iter().map(|b| crate::tok::canon_str(b).unwrap_or_default()).collect();
                    if gb.len() < own.len() || gb[..own.len()] != own[..] {
                        fail(c, "own-bounds-changed", format!("`{src}`: bounds of `{}` are {:?}, declared {:?}", p.name, gb, own));
                    } else {
                        let extra = &gb[own.len()..];
                        match extra.len() {
                            0 => {}
                            1 if extra[0].replace(' ', "") == format!("::darling::{conv_trait}") => {
                                bounded.insert(p.name.clone());
                            }
                            _ => fail(c, "unexpected-extra-bound", format!("`{src}`: `{}` got extra bounds {:?}", p.name, extra)),
                        }
                    }
                }
                _ => fail(c, "param-kind-changed", format!("`{src}`: parameter `{}` changed kind", p.name)),
            }
        }
        if bounded != expected {
            let class = if bounded.difference(&expected).next().is_some() { "bound-on-unused-or-skipped-param" } else { "bound-missing" };
            fail(c, class, format!("derive({name}) on `{src}`: {conv_trait} bound added to {bounded:?}, the parsed fields use {expected:?}"));
        }
    }
    // where-clause unchanged
    let want_where = crate::tok::canon_str(where_clause.trim()).unwrap_or_default();
    let got_where = im.generics.where_clause.as_ref().map(canon_of).unwrap_or_default();
    if want_where != got_where {
        fail(c, "where-clause-changed", format!("`{src}`: where-clause `{got_where}`, declared `{want_where}`"));
    }
    // self type names every parameter
    let self_ty = canon_of(&im.self_ty);
    let want_self = if params.is_empty() { "Recv ".to_string() } else { crate::tok::canon_str(&format!("Recv<{}>", params.iter().map(|p| p.name.clone()).collect::<Vec<_>>().join(", "))).unwrap_or_default() };
    if self_ty != want_self {
        fail(c, "self-type", format!("`{src}`: impl is for `{self_ty}`, expected `{want_self}`"));
    }
    c.count(&format!("derive.{name}"));
    c.count(if is_enum { "body.enum" } else { "body.struct" });
    c.count_n("bounded_params", expected.len() as u64);
    let fv: Vec<_> = forms.iter().collect();
    c.nontrivial(&(tr, fv, expected.len(), declared.len(), !where_clause.is_empty()));
    if c.samples.len() < c.max_samples && case_seed % 3001 == 0 {
        c.sample(|| json!({"input": src, "derive": name, "expected_bounded": expected, "impl_generics": canon_of(&im.generics)}));
    }
}

fn run_bounds(args: &Args) -> i32 {
    let started = Instant::now();
    if let Some(p) = &args.replay {
        let v: serde_json::Value = serde_json::from_str(&std::fs::read_to_string(p).unwrap_or_default()).unwrap_or_default();
        let seed = v["witness"]["case_seed"].as_u64().unwrap_or_else(|| vfcommon::die("replay file has no case_seed"));
        let mut c = Collector::new();
        bounds_case(seed, &mut c);
        c.nontrivial(&0u8);
        c.nontrivial(&1u8);
        return conclude(args, started, c, bounds_outcome(0));
    }
    let total = args.budget(40_000, 2_000_000);
    let c = fan_out(args, 191, total, |_, rng, share, c| {
        for i in 0..share {
            if i % 512 == 0 {
                proc_macro2::extra::invalidate_current_thread_spans();
            }
            let cs = rng.next_u64();
            bounds_case(cs, c);
        }
    });
    conclude(args, started, c, bounds_outcome(300))
}

fn bounds_outcome(min: u64) -> Outcome {
    Outcome {
        level: "exploration",
        rule: "generic receivers (0..2 lifetimes, 0..4 type params with own bounds / defaults, optional const param and where-clause; struct or FromMeta enum bodies; fields whose types are built from the planted-type grammar; skip / skip=true / skip=false, skipped variants, magic fields, with / default / multiple / map) for all six derives; the emitted impl block is parsed: same parameters in order, own bounds intact, exactly the declared type params used by parsed fields carry one extra ::darling::FromMeta bound, where-clause and self type unchanged. Distinct = (trait, type forms, #bounded, #declared, where-clause?).".into(),
        assumptions: vec!["`bound = \"..\"` is parsed but unused by code generation on the pinned tree and is not generated (DESIGN §4)".into()],
        min_nontrivial: min,
        exhaustive: None,
        extra: Default::default(),
    }
}
