//! C10: derive-time validation accepts exactly the well-formed declarations.
//!
//! A declaration is *data* (trait, container options, body, per-element option occurrences
//! with well-formed values). It is rendered to source text with the byte range of every
//! option occurrence / field / variant recorded; the documented rule set is evaluated on the
//! data (never on darling's code) giving the set R of violated rules with their loci; the
//! derive's output is classified and compared: impl iff R is empty; otherwise diagnostics only,
//! every demanded rule covered by a diagnostic whose span lies in one of its loci, and no
//! diagnostic outside every locus.

use crate::c06::{classify, DeriveFn};
use serde_json::json;
use std::time::Instant;
use vfcommon::{catch, conclude, fan_out, Args, Caught, Collector, Outcome, Rng};

type R = (usize, usize);

#[derive(Clone, Copy, PartialEq, Eq, Hash, Debug)]
pub enum Tr {
    Meta,
    DeriveInput,
    Field,
    Variant,
    TypeParam,
    Attributes,
}

pub const ALL_TR: [Tr; 6] = [Tr::Meta, Tr::DeriveInput, Tr::Field, Tr::Variant, Tr::TypeParam, Tr::Attributes];

impl Tr {
    pub fn name(self) -> &'static str {
        match self {
            Tr::Meta => "FromMeta",
            Tr::DeriveInput => "FromDeriveInput",
            Tr::Field => "FromField",
            Tr::Variant => "FromVariant",
            Tr::TypeParam => "FromTypeParam",
            Tr::Attributes => "FromAttributes",
        }
    }
    pub fn derive(self) -> DeriveFn {
        match self {
            Tr::Meta => darling_core::derive::from_meta,
            Tr::DeriveInput => darling_core::derive::from_derive_input,
            Tr::Field => darling_core::derive::from_field,
            Tr::Variant => darling_core::derive::from_variant,
            Tr::TypeParam => darling_core::derive::from_type_param,
            Tr::Attributes => darling_core::derive::from_attributes,
        }
    }
    fn element_level(self) -> bool {
        self != Tr::Meta
    }
}

#[derive(Clone, Debug)]
pub struct Occ {
    pub name: &'static str,
    pub text: String,
    /// value of a boolean option (true for bare / non-boolean options)
    pub on: bool,
    pub range: R,
}

fn occ(name: &'static str, text: impl Into<String>, on: bool) -> Occ {
    Occ {
        name,
        text: text.into(),
        on,
        range: (0, 0),
    }
}

#[derive(Clone, Debug)]
pub struct FieldSpec {
    pub name: Option<String>,
    pub ty: String,
    pub attrs: Vec<Vec<Occ>>,
    pub range: R,
}

#[derive(Clone, Debug)]
pub enum VBody {
    Unit,
    Tuple(Vec<FieldSpec>),
    Named(Vec<FieldSpec>),
}

#[derive(Clone, Debug)]
pub struct VariantSpec {
    pub name: String,
    pub attrs: Vec<Vec<Occ>>,
    pub body: VBody,
    pub range: R,
}

#[derive(Clone, Debug)]
pub enum Body {
    Unit,
    Tuple(Vec<FieldSpec>),
    Named(Vec<FieldSpec>),
    Enum(Vec<VariantSpec>),
    Union,
}

#[derive(Clone, Debug)]
pub struct Decl {
    pub tr: Tr,
    pub cattrs: Vec<Vec<Occ>>,
    pub generics: String,
    pub body: Body,
    pub src: String,
}

// ------------------------------------------------------------------ rendering

/// attributes that are not `#[darling(..)]`, however much they look like it: their content, which would
/// be a violation or change the declaration if it were read, has no effect
const LOOK_ALIKES: [&str; 7] = [
    "#[::darling(bogus, skip, flatten)] ",
    "#[darling::x(bogus)] ",
    "#[x::darling(rename = 5, flatten, skip)] ",
    "#[serde::rename(skip)] ",
    "#[darlings(flatten, multiple)] ",
    "#[darling::darling(with = 5)] ",
    "#[::serde(default = 1)] ",
];

fn render_attrs(out: &mut String, attrs: &mut [Vec<Occ>]) {
    // one declaration position in seven carries a look-alike as well (also where nothing else is written)
    if (out.len() + attrs.len()) % 7 == 3 {
        out.push_str(LOOK_ALIKES[(out.len() / 7) % LOOK_ALIKES.len()]);
    }
    for group in attrs.iter_mut() {
        // `r#darling` is `darling` spelled as a raw identifier: the same attribute
        out.push_str(if (out.len() + group.len()) % 6 == 0 { "#[r#darling(" } else { "#[darling(" });
        for (i, o) in group.iter_mut().enumerate() {
            if i > 0 {
                out.push_str(", ");
            }
            let lo = out.len();
            out.push_str(&o.text);
            o.range = (lo, out.len());
        }
        out.push_str(")] ");
    }
}

fn render_fields(out: &mut String, fields: &mut [FieldSpec]) {
    for (i, f) in fields.iter_mut().enumerate() {
        if i > 0 {
            out.push_str(", ");
        }
        let lo = out.len();
        render_attrs(out, &mut f.attrs);
        if let Some(n) = &f.name {
            out.push_str(n);
            out.push_str(": ");
        }
        out.push_str(&f.ty);
        f.range = (lo, out.len());
    }
}

pub fn render(d: &mut Decl) {
    let mut out = String::new();
    render_attrs(&mut out, &mut d.cattrs);
    let g = d.generics.clone();
    match &mut d.body {
        Body::Unit => out.push_str(&format!("struct Recv{g};")),
        Body::Tuple(fs) => {
            out.push_str(&format!("struct Recv{g}("));
            render_fields(&mut out, fs);
            out.push_str(");");
        }
        Body::Named(fs) => {
            out.push_str(&format!("struct Recv{g} {{ "));
            render_fields(&mut out, fs);
            out.push_str(" }");
        }
        Body::Union => out.push_str(&format!("union Recv{g} {{ a: u8, b: u16 }}")),
        Body::Enum(vs) => {
            out.push_str(&format!("enum Recv{g} {{ "));
            for (i, v) in vs.iter_mut().enumerate() {
                if i > 0 {
                    out.push_str(", ");
                }
                let lo = out.len();
                render_attrs(&mut out, &mut v.attrs);
                out.push_str(&v.name);
                match &mut v.body {
                    VBody::Unit => {}
                    VBody::Tuple(fs) => {
                        out.push('(');
                        render_fields(&mut out, fs);
                        out.push(')');
                    }
                    VBody::Named(fs) => {
                        out.push_str(" { ");
                        render_fields(&mut out, fs);
                        out.push_str(" }");
                    }
                }
                v.range = (lo, out.len());
            }
            out.push_str(" }");
        }
    }
    d.src = out;
}

// ------------------------------------------------------------------ the documented rule set

#[derive(Clone, Copy, PartialEq, Eq, Debug)]
enum Level {
    Container,
    Field,
    Forwarded,
    Ignored,
    Variant,
}

fn known(tr: Tr, level: Level, name: &str) -> bool {
    match level {
        Level::Ignored => true,
        Level::Forwarded => name == "with",
        Level::Field => matches!(name, "rename" | "default" | "with" | "skip" | "map" | "and_then" | "multiple" | "flatten"),
        Level::Variant => matches!(name, "rename" | "skip" | "word"),
        Level::Container => {
            matches!(name, "default" | "rename_all" | "map" | "and_then" | "bound" | "allow_unknown_fields")
                || (tr == Tr::Meta && matches!(name, "from_word" | "from_none"))
                || (tr.element_level() && matches!(name, "attributes" | "forward_attrs" | "from_ident"))
                || (matches!(tr, Tr::DeriveInput | Tr::Variant) && name == "supports")
        }
    }
}

fn repetition_is_error(level: Level, name: &str) -> bool {
    match level {
        Level::Container => matches!(name, "default" | "allow_unknown_fields" | "from_word" | "from_none"),
        Level::Field => matches!(name, "rename" | "default" | "with" | "skip" | "multiple" | "flatten"),
        Level::Variant => matches!(name, "rename" | "skip" | "word"),
        Level::Forwarded => name == "with",
        Level::Ignored => false,
    }
}

fn magic_level(tr: Tr, field_name: &str) -> Level {
    let ignored: &[&str] = match tr {
        Tr::Meta => &[],
        Tr::DeriveInput => &["ident", "vis", "generics"],
        Tr::Field => &["ident", "vis", "ty"],
        Tr::Variant => &["ident", "discriminant", "fields"],
        Tr::TypeParam => &["ident", "bounds", "default"],
        // FromAttributes passes no element part on: `ident` is an ordinary field there
        Tr::Attributes => &[],
    };
    if ignored.contains(&field_name) {
        Level::Ignored
    } else if tr.element_level() && (field_name == "attrs" || (tr == Tr::DeriveInput && field_name == "data")) {
        Level::Forwarded
    } else {
        Level::Field
    }
}

#[derive(Clone, Debug)]
pub struct Violation {
    pub rule: &'static str,
    pub stage: u8,
    pub loci: Vec<R>,
    pub unspanned_ok: bool,
    /// further places where a diagnostic for this rule is tolerated, without counting as its report
    pub tolerated: Vec<R>,
    pub demanded: bool,
}

fn flat(attrs: &[Vec<Occ>]) -> Vec<&Occ> {
    attrs.iter().flatten().collect()
}

/// violations among the options of one element
fn eval_options(tr: Tr, level: Level, occs: &[&Occ], unit_variant: bool, stage: u8, bad_supports: bool) -> Vec<Violation> {
    let mut out = vec![];
    let v = |rule: &'static str, loci: Vec<R>| Violation {
        rule,
        stage,
        loci,
        unspanned_ok: false,
        tolerated: vec![],
        demanded: true,
    };
    if level == Level::Ignored {
        // the plain magic fields (`ident`, `vis`, `generics`, `ty`, ...) know no option at all: whatever
        // is written there is an unknown option. (Reported under its own rule name: the pinned tree
        // never reads these attributes — known finding K1 — and a different unknown-option regression
        // must stay distinguishable.) Not demanded next to other violations.
        for o in occs {
            let mut x = v("option-on-magic-field", vec![o.range]);
            x.demanded = false;
            out.push(x);
        }
        return out;
    }
    let mut seen: Vec<&Occ> = vec![];
    fn first<'a>(seen: &[&'a Occ], n: &str) -> Option<&'a Occ> {
        seen.iter().find(|o| o.name == n).copied()
    }
    for o in occs {
        if !known(tr, level, o.name) {
            out.push(v("unknown-option", vec![o.range]));
            continue;
        }
        if (level == Level::Container || level == Level::Field) && matches!(o.name, "map" | "and_then") {
            let prior: Vec<R> = seen.iter().filter(|p| matches!(p.name, "map" | "and_then")).map(|p| p.range).collect();
            if !prior.is_empty() {
                let same = first(&seen, o.name).is_some();
                let mut loci = vec![o.range];
                loci.extend(prior);
                out.push(v(if same { "repeated-option" } else { "map-with-and_then" }, loci));
                seen.push(o);
                continue;
            }
        }
        // (`word = false` declares nothing, on any variant)
        if level == Level::Variant && o.name == "word" && o.on && !unit_variant {
            out.push(v("word-on-non-unit-variant", vec![o.range]));
        }
        if repetition_is_error(level, o.name) && first(&seen, o.name).is_some() {
            out.push(v("repeated-option", vec![o.range]));
            continue;
        }
        if o.name == "supports" && bad_supports && (o.text.contains("bogus") || o.text.contains("struct_struct") || o.text.contains("enum_enum")) {
            // the offending tokens are the items of the list that are no shape word, not the whole option
            let mut loci = vec![];
            if let (Some(open), Some(close)) = (o.text.find('('), o.text.rfind(')')) {
                let mut at = open + 1;
                for piece in o.text[open + 1..close].split(',') {
                    let lead = piece.len() - piece.trim_start().len();
                    let t = piece.trim();
                    if t.contains("bogus") || t.contains("struct_struct") || t.contains("enum_enum") {
                        loci.push((o.range.0 + at + lead, o.range.0 + at + lead + t.len()));
                    }
                    at += piece.len() + 1;
                }
            }
            if loci.is_empty() {
                loci.push(o.range);
            }
            // every item that is no shape word is a violation of its own, diagnosed at its own tokens
            for l in loci {
                out.push(v("unknown-shape-word", vec![l]));
            }
        }
        seen.push(o);
    }
    if level == Level::Field {
        if let Some(fl) = first(&seen, "flatten") {
            for partner in ["rename", "with", "skip", "multiple"] {
                if let Some(p) = first(&seen, partner) {
                    if p.on {
                        // one rule per partner (`flatten` with `rename` and `flatten` with `with` are two
                        // conflicts, each wanting a diagnostic of its own - at the partner, or at `flatten`
                        // when that was written last); the partner's tokens come first so that the two are
                        // not taken for one and the same offending token
                        let mut loci: Vec<R> = occs.iter().filter(|o| o.name == partner).map(|o| o.range).collect();
                        loci.push(fl.range);
                        out.push(v("flatten-conflict", loci));
                    }
                }
            }
        }
    }
    out
}

fn effective<'a>(occs: &[&'a Occ], name: &str) -> Option<&'a Occ> {
    occs.iter().find(|o| o.name == name).copied()
}

pub fn rules(d: &Decl) -> Vec<Violation> {
    let whole: R = (0, d.src.len());
    let mut out: Vec<Violation> = vec![];
    let tr = d.tr;
    // stage 0: bodies no derive can work with
    if matches!(d.body, Body::Union) {
        out.push(Violation {
            rule: "union",
            stage: 0,
            loci: vec![whole],
            unspanned_ok: true,
            tolerated: vec![],
            demanded: true,
        });
    }
    if tr.element_level() && matches!(d.body, Body::Enum(_)) {
        out.push(Violation {
            rule: "enum-for-element-level-trait",
            stage: 0,
            loci: vec![whole],
            // (reported at the item's name: a diagnostic without a span lands on the derive attribute)
            unspanned_ok: false,
            tolerated: vec![],
            demanded: true,
        });
    }
    // stage 1: container options
    let c = flat(&d.cattrs);
    out.extend(eval_options(tr, Level::Container, &c, false, 1, true));
    let has_from_word = effective(&c, "from_word").filter(|_| tr == Tr::Meta);
    let from_word_loci: Vec<R> = c.iter().filter(|o| o.name == "from_word").map(|o| o.range).collect();
    // stage 2: body
    let field_rules = |f: &FieldSpec, in_struct_body: bool| -> Vec<Violation> {
        let level = match (&f.name, in_struct_body) {
            (Some(n), true) => magic_level(tr, n),
            _ => Level::Field,
        };
        eval_options(tr, level, &flat(&f.attrs), false, 2, false)
    };
    match &d.body {
        Body::Unit | Body::Union => {}
        Body::Tuple(fs) | Body::Named(fs) => {
            let named = matches!(d.body, Body::Named(_));
            let mut clean_flatten: Vec<R> = vec![];
            let mut all_flatten: Vec<R> = vec![];
            for f in fs {
                let vs = field_rules(f, named);
                let level = match (&f.name, named) {
                    (Some(n), true) => magic_level(tr, n),
                    _ => Level::Field,
                };
                if level == Level::Field {
                    if let Some(fl) = effective(&flat(&f.attrs), "flatten") {
                        all_flatten.push(fl.range);
                        if vs.is_empty() {
                            clean_flatten.push(fl.range);
                        }
                    }
                }
                if level == Level::Forwarded && f.name.as_deref() == Some("attrs") && effective(&c, "forward_attrs").is_none() {
                    out.push(Violation {
                        rule: "attrs-without-forward_attrs",
                        stage: 2,
                        loci: vec![f.range],
                        unspanned_ok: false,
                        tolerated: vec![],
                        demanded: vs.is_empty(),
                    });
                }
                out.extend(vs);
            }
            if all_flatten.len() > 1 {
                out.push(Violation {
                    rule: "more-than-one-flatten",
                    stage: 2,
                    loci: all_flatten,
                    unspanned_ok: false,
                    tolerated: vec![],
                    demanded: clean_flatten.len() > 1,
                });
            }
            if tr == Tr::Meta {
                if let Body::Tuple(t) = &d.body {
                    if t.len() > 1 {
                        out.push(Violation {
                            rule: "multi-field-tuple-struct",
                            stage: 0,
                            loci: vec![whole],
                            unspanned_ok: false,
                            tolerated: vec![],
                            demanded: true,
                        });
                    }
                }
                if has_from_word.is_some() && matches!(&d.body, Body::Tuple(t) if t.len() == 1) {
                    out.push(Violation {
                        rule: "from_word-on-newtype-struct",
                        stage: 2,
                        loci: from_word_loci.clone(),
                        unspanned_ok: false,
                        tolerated: vec![],
                        // a cross-element rule: shown only when the field itself is clean
                        demanded: matches!(&d.body, Body::Tuple(t) if field_rules(&t[0], false).is_empty()),
                    });
                }
            }
        }
        Body::Enum(vars) if tr == Tr::Meta => {
            let mut clean_words: Vec<R> = vec![];
            let mut all_words: Vec<R> = vec![];
            for var in vars {
                let unit = matches!(var.body, VBody::Unit);
                let vo = flat(&var.attrs);
                let own = eval_options(tr, Level::Variant, &vo, unit, 2, false);
                let own_clean = own.is_empty();
                out.extend(own);
                let mut fields_clean = true;
                let mut first_bad_seen = false;
                let fs: &[FieldSpec] = match &var.body {
                    VBody::Unit => &[],
                    VBody::Tuple(f) | VBody::Named(f) => f,
                };
                for f in fs {
                    let mut vs = field_rules(f, false);
                    if !vs.is_empty() {
                        fields_clean = false;
                        // a variant reports its own options first, then every faulty field ("all violated
                        // rules among ... the fields of one struct")
                        let demanded = own_clean;
                        for v in vs.iter_mut() {
                            v.demanded = demanded;
                        }
                        first_bad_seen = true;
                    }
                    out.extend(vs);
                }
                // "more than one flatten field": the fields of one struct - a struct variant's too
                if let VBody::Named(nf) = &var.body {
                    let fl: Vec<R> = nf.iter().filter_map(|f| effective(&flat(&f.attrs), "flatten").map(|o| o.range)).collect();
                    if fl.len() > 1 {
                        out.push(Violation {
                            rule: "more-than-one-flatten",
                            stage: 2,
                            loci: fl,
                            unspanned_ok: false,
                            tolerated: vec![],
                            demanded: own_clean && fields_clean,
                        });
                    }
                }
                let clean = own_clean && fields_clean;
                // a skipped variant can never be produced, so it is not the word variant either (C09);
                // `word` written on it declares nothing
                let variant_skipped = effective(&vo, "skip").map(|s| s.on).unwrap_or(false);
                if let Some(w) = effective(&vo, "word") {
                    if w.on && unit && !variant_skipped {
                        all_words.push(w.range);
                        if clean {
                            clean_words.push(w.range);
                        }
                    }
                }
                if let VBody::Tuple(t) = &var.body {
                    let skipped = effective(&vo, "skip").map(|s| s.on).unwrap_or(false);
                    // (`V()` included: a tuple variant is representable with exactly one field)
                    if t.len() != 1 && !skipped {
                        out.push(Violation {
                            rule: "multi-field-tuple-variant",
                            stage: 2,
                            loci: vec![var.range],
                            unspanned_ok: false,
                            tolerated: vec![],
                            demanded: clean,
                        });
                    }
                }
            }
            if all_words.len() > 1 {
                out.push(Violation {
                    rule: "more-than-one-word-variant",
                    stage: 2,
                    loci: all_words.clone(),
                    unspanned_ok: false,
                    tolerated: vec![],
                    demanded: clean_words.len() > 1,
                });
            }
            if !all_words.is_empty() && has_from_word.is_some() {
                // reported at the container's `from_word`: a diagnostic at a `word` token could not
                // be told apart from the more-than-one-word rule's reports
                out.push(Violation {
                    rule: "word-with-from_word",
                    stage: 2,
                    loci: from_word_loci.clone(),
                    unspanned_ok: false,
                    tolerated: all_words.clone(),
                    demanded: !clean_words.is_empty(),
                });
            }
        }
        Body::Enum(_) => {}
    }
    if tr == Tr::Meta && has_from_word.is_some() && matches!(d.body, Body::Unit) {
        out.push(Violation {
            rule: "from_word-on-unit-struct",
            stage: 2,
            loci: from_word_loci.clone(),
            unspanned_ok: false,
            tolerated: vec![],
            demanded: true,
        });
    }
    // stage 3
    if tr == Tr::Attributes {
        let has_names = c.iter().any(|o| o.name == "attributes" && !o.text.ends_with("()"));
        // the last `attributes(..)` wins; an empty one collects nothing
        let last = c.iter().filter(|o| o.name == "attributes").last();
        let effective_names = last.map(|o| !o.text.ends_with("()")).unwrap_or(false);
        let newtype = matches!(&d.body, Body::Tuple(t) if t.len() == 1);
        let _ = has_names;
        if !effective_names && !newtype {
            out.push(Violation {
                rule: "from-attributes-without-attributes",
                stage: 3,
                loci: vec![whole],
                unspanned_ok: true,
                tolerated: vec![],
                demanded: true,
            });
        }
    }
    // only the first stage that has a violation is obliged to report everything it has
    if let Some(first) = out.iter().map(|v| v.stage).min() {
        for v in out.iter_mut() {
            if v.stage != first {
                v.demanded = false;
            }
        }
    }
    out
}

// ------------------------------------------------------------------ judging

fn within(s: R, l: R) -> bool {
    s.0 >= l.0 && s.1 <= l.1
}

pub fn judge(d: &Decl, origin: &'static str, c: &mut Collector) {
    let Ok(di) = syn::parse_str::<syn::DeriveInput>(&d.src) else {
        c.discarded += 1;
        return;
    };
    c.eval();
    let r = rules(d);
    let name = d.tr.name();
    let witness = |extra: serde_json::Value| json!({"input": d.src, "derive": name, "violated_rules": r.iter().map(|v| json!({"rule": v.rule, "stage": v.stage, "loci": v.loci, "demanded": v.demanded})).collect::<Vec<_>>(), "detail": extra});
    let out = match catch(|| (d.tr.derive())(&di)) {
        Caught::Ok(ts) => ts,
        Caught::Panic { msg, loc } => {
            c.violation(format!("C10:panic:{}", vfcommon::short_loc(&loc)), format!("derive({name}) panicked on `{}`: {msg}", d.src), witness(json!({"panic": msg})));
            return;
        }
    };
    let cl = match classify(out, name) {
        Ok(cl) => cl,
        Err(e) => {
            c.violation("C10:unparsable-output", format!("derive({name}) on `{}`: {e}", d.src), witness(json!({})));
            return;
        }
    };
    let msgkey = |m: &str| -> String {
        let mut out = String::new();
        let mut in_tick = false;
        for ch in m.chars() {
            if ch == '`' {
                in_tick = !in_tick;
                continue;
            }
            if !in_tick {
                out.push(ch);
            }
        }
        out.split_whitespace().take(6).collect::<Vec<_>>().join("_")
    };
    let diags: Vec<_> = cl.errors.iter().map(|e| json!({"message": e.0, "span": e.1})).collect();
    if r.is_empty() {
        if cl.impls.len() != 1 || !cl.errors.is_empty() {
            let key = cl.errors.first().map(|e| msgkey(&e.0)).unwrap_or_else(|| "no-impl".into());
            c.violation(
                format!("C10:{name}:rejects-well-formed:{key}"),
                format!("derive({name}) rejects the well-formed `{}`: {:?}", d.src, cl.errors.iter().map(|e| &e.0).collect::<Vec<_>>()),
                witness(json!({"diagnostics": diags})),
            );
        }
    } else {
        if !cl.impls.is_empty() || cl.errors.is_empty() {
            c.violation(
                format!("C10:{name}:accepts-ill-formed:{}", r[0].rule),
                format!("derive({name}) emits {} impl(s) and {} diagnostics for `{}` which violates {:?}", cl.impls.len(), cl.errors.len(), d.src, r.iter().map(|v| v.rule).collect::<Vec<_>>()),
                witness(json!({"diagnostics": diags})),
            );
        } else {
            // every demanded rule needs a diagnostic of its own: maximum matching rules -> diagnostics
            // (rules violated by one and the same token share that token's diagnostic)
            let mut demanded: Vec<&Violation> = vec![];
            for v in r.iter().filter(|v| v.demanded) {
                if !demanded.iter().any(|p| p.loci.first() == v.loci.first() && p.unspanned_ok == v.unspanned_ok) {
                    demanded.push(v);
                }
            }
            let edge = |v: &Violation, sp: &Option<R>| match sp {
                Some(s) => v.loci.iter().any(|l| within(*s, *l)),
                None => v.unspanned_ok,
            };
            let mut owner: Vec<Option<usize>> = vec![None; cl.errors.len()];
            fn augment(i: usize, adj: &[Vec<usize>], owner: &mut Vec<Option<usize>>, seen: &mut Vec<bool>) -> bool {
                for &j in &adj[i] {
                    if seen[j] {
                        continue;
                    }
                    seen[j] = true;
                    if owner[j].is_none() || augment(owner[j].unwrap(), adj, owner, seen) {
                        owner[j] = Some(i);
                        return true;
                    }
                }
                false
            }
            let adj: Vec<Vec<usize>> = demanded.iter().map(|v| (0..cl.errors.len()).filter(|j| edge(v, &cl.errors[*j].1)).collect()).collect();
            for (i, v) in demanded.iter().enumerate() {
                let mut seen = vec![false; cl.errors.len()];
                if !augment(i, &adj, &mut owner, &mut seen) {
                    let class = if adj[i].is_empty() { "rule-not-reported" } else { "rule-shares-a-report" };
                    c.violation(
                        format!("C10:{name}:{class}:{}", v.rule),
                        format!("derive({name}) on `{}`: no diagnostic of its own at the tokens violating `{}` (loci {:?}); diagnostics: {:?}", d.src, v.rule, v.loci, cl.errors),
                        witness(json!({"diagnostics": diags, "missing": v.rule})),
                    );
                }
            }
            for (m, sp) in &cl.errors {
                let attributable = match sp {
                    Some(s) => r.iter().any(|v| v.loci.iter().chain(v.tolerated.iter()).any(|l| within(*s, *l))),
                    None => r.iter().any(|v| v.unspanned_ok),
                };
                if !attributable {
                    c.violation(
                        format!("C10:{name}:diagnostic-outside-any-rule:{}", msgkey(m)),
                        format!("derive({name}) on `{}`: diagnostic {m:?} at {sp:?} is not at the tokens of any violated rule {:?}", d.src, r.iter().map(|v| (v.rule, v.loci.clone())).collect::<Vec<_>>()),
                        witness(json!({"diagnostics": diags})),
                    );
                }
            }
        }
    }
    let mut rule_names: Vec<&str> = r.iter().map(|v| v.rule).collect();
    rule_names.sort();
    rule_names.dedup();
    for rn in &rule_names {
        c.count(&format!("rule.{rn}"));
    }
    c.count(if r.is_empty() { "verdict.well-formed" } else { "verdict.ill-formed" });
    c.count(&format!("regime.{}", if r.is_empty() { "none" } else if r.iter().all(|v| v.demanded) { "full-coverage" } else { "partial-coverage" }));
    c.count(&format!("origin.{origin}"));
    c.nontrivial(&(d.tr, rule_names, body_kind(&d.body), d.cattrs.len().min(3)));
    if c.samples.len() < c.max_samples && c.evaluations % 10007 == 0 {
        c.sample(|| json!({"input": d.src, "derive": name, "violated_rules": r.iter().map(|v| v.rule).collect::<Vec<_>>(), "diagnostics": cl.errors.iter().map(|e| e.0.clone()).collect::<Vec<_>>(), "impl_emitted": cl.impls.len() == 1}));
    }
}

fn body_kind(b: &Body) -> &'static str {
    match b {
        Body::Unit => "unit",
        Body::Tuple(f) if f.len() == 1 => "newtype",
        Body::Tuple(_) => "tuple",
        Body::Named(_) => "named",
        Body::Enum(_) => "enum",
        Body::Union => "union",
    }
}

// ------------------------------------------------------------------ generation

fn field_spellings() -> Vec<Occ> {
    vec![
        occ("rename", "rename = \"nm\"", true),
        occ("default", "default", true),
        occ("default", "default = \"mk\"", true),
        occ("with", "with = conv", true),
        occ("skip", "skip", true),
        occ("skip", "skip = true", true),
        occ("skip", "skip = false", false),
        occ("map", "map = \"f\"", true),
        occ("and_then", "and_then = g", true),
        occ("multiple", "multiple", true),
        occ("multiple", "multiple = true", true),
        occ("multiple", "multiple = false", false),
        occ("flatten", "flatten", true),
    ]
}

fn variant_spellings() -> Vec<Occ> {
    vec![
        occ("rename", "rename = \"nm\"", true),
        occ("skip", "skip", true),
        occ("skip", "skip = true", true),
        occ("skip", "skip = false", false),
        occ("word", "word", true),
        occ("word", "word = true", true),
        occ("word", "word = false", false),
    ]
}

fn container_spellings(tr: Tr) -> Vec<Occ> {
    let mut v = vec![
        occ("default", "default", true),
        occ("default", "default = \"mk\"", true),
        occ("rename_all", "rename_all = \"snake_case\"", true),
        occ("rename_all", "rename_all = \"PascalCase\"", true),
        occ("map", "map = \"f\"", true),
        occ("and_then", "and_then = g", true),
        occ("bound", "bound = \"T: Clone\"", true),
        occ("allow_unknown_fields", "allow_unknown_fields", true),
        occ("allow_unknown_fields", "allow_unknown_fields = false", false),
        occ("from_word", "from_word = mk_word", true),
        occ("from_none", "from_none = mk_none", true),
        occ("attributes", "attributes(x)", true),
        occ("attributes", "attributes(x, y)", true),
        occ("forward_attrs", "forward_attrs", true),
        occ("forward_attrs", "forward_attrs(doc, cfg)", true),
        occ("from_ident", "from_ident", true),
        occ("defualt", "defualt", true),
        occ("nonsense", "nonsense = 1", true),
    ];
    v.push(match tr {
        Tr::Variant => occ("supports", "supports(unit, newtype)", true),
        _ => occ("supports", "supports(struct_named, enum_any)", true),
    });
    if tr != Tr::Variant {
        // not one of the eleven documented shape words
        v.push(occ("supports", "supports(struct_struct_named)", true));
        v.push(occ("supports", "supports(enum_unit, enum_enum_newtype)", true));
    }
    v.push(match tr {
        Tr::Variant => occ("supports", "supports(unit, bogus)", true),
        _ => occ("supports", "supports(struct_named, bogus_word)", true),
    });
    // items that are no shape word at all: name-value, literal, list, multi-segment path
    v.push(occ("supports", "supports(bogus = 1)", true));
    v.push(occ("supports", "supports(bogus, any, bogus_two::x, \"bogus\")", true));
    v.push(occ("supports", "supports(\"bogus\")", true));
    v.push(occ("supports", "supports(bogus(x))", true));
    v.push(match tr {
        Tr::Variant => occ("supports", "supports(unit::bogus)", true),
        _ => occ("supports", "supports(struct_named::bogus)", true),
    });
    v
}

fn plain_field(name: &str) -> FieldSpec {
    FieldSpec {
        name: Some(name.to_string()),
        ty: "u8".into(),
        attrs: vec![],
        range: (0, 0),
    }
}

fn base_container(tr: Tr) -> Vec<Vec<Occ>> {
    if tr.element_level() {
        vec![vec![occ("attributes", "attributes(x)", true)]]
    } else {
        vec![]
    }
}

/// every split of a sequence into 1..=len consecutive attribute groups
fn splits<T: Clone>(items: &[T]) -> Vec<Vec<Vec<T>>> {
    let n = items.len();
    if n == 0 {
        return vec![vec![]];
    }
    let mut out = vec![];
    for mask in 0..(1u32 << (n - 1)) {
        let mut groups = vec![vec![items[0].clone()]];
        for i in 1..n {
            if mask & (1 << (i - 1)) != 0 {
                groups.push(vec![items[i].clone()]);
            } else {
                groups.last_mut().unwrap().push(items[i].clone());
            }
        }
        out.push(groups);
    }
    out
}

fn enumerate_field_options(c: &mut Collector, slice: usize, of: usize) {
    let sp = field_spellings();
    let mut idx = 0usize;
    let mut seqs: Vec<Vec<Occ>> = vec![];
    for a in &sp {
        seqs.push(vec![a.clone()]);
        for b in &sp {
            seqs.push(vec![a.clone(), b.clone()]);
            for cc in &sp {
                seqs.push(vec![a.clone(), b.clone(), cc.clone()]);
            }
        }
    }
    for seq in &seqs {
        for split in splits(seq) {
            idx += 1;
            if idx % of != slice {
                continue;
            }
            for tr in ALL_TR {
                let mut f = plain_field("a");
                f.ty = "Vec<u8>".into();
                f.attrs = split.clone();
                let mut d = Decl {
                    tr,
                    cattrs: base_container(tr),
                    generics: String::new(),
                    body: Body::Named(vec![f, plain_field("b")]),
                    src: String::new(),
                };
                render(&mut d);
                judge(&d, "enumerated-field-options", c);
            }
        }
    }
}

fn enumerate_variant_and_container(c: &mut Collector) {
    let vs = variant_spellings();
    for a in &vs {
        for b in &vs {
            for split in splits(&[a.clone(), b.clone()]) {
                for shape in 0..3 {
                    let unit = shape == 0;
                    let mut d = Decl {
                        tr: Tr::Meta,
                        cattrs: vec![],
                        generics: String::new(),
                        body: Body::Enum(vec![
                            VariantSpec {
                                name: "First".into(),
                                attrs: split.clone(),
                                body: match shape {
                                    0 => VBody::Unit,
                                    1 => VBody::Named(vec![plain_field("a")]),
                                    _ => VBody::Tuple(vec![FieldSpec { name: None, ty: "u8".into(), attrs: vec![], range: (0, 0) }]),
                                },
                                range: (0, 0),
                            },
                            VariantSpec {
                                name: "Second".into(),
                                attrs: vec![],
                                body: VBody::Unit,
                                range: (0, 0),
                            },
                        ]),
                        src: String::new(),
                    };
                    render(&mut d);
                    judge(&d, "enumerated-variant-options", c);
                }
            }
        }
    }
    // flatten fields inside struct variants: none, one, two, three
    for n_flat in 0..4usize {
        for extra_plain in [false, true] {
            let mut fs = vec![];
            for k in 0..n_flat {
                let mut f = plain_field(["fa", "fb", "fc"][k]);
                f.ty = "X".into();
                f.attrs = vec![vec![occ("flatten", "flatten", true)]];
                fs.push(f);
            }
            if extra_plain {
                fs.insert(fs.len().min(1), plain_field("p"));
            }
            let mut d = Decl {
                tr: Tr::Meta,
                cattrs: vec![],
                generics: String::new(),
                body: Body::Enum(vec![
                    VariantSpec { name: "First".into(), attrs: vec![], body: VBody::Named(fs), range: (0, 0) },
                    VariantSpec { name: "Second".into(), attrs: vec![], body: VBody::Unit, range: (0, 0) },
                ]),
                src: String::new(),
            };
            render(&mut d);
            judge(&d, "enumerated-variant-flatten", c);
        }
    }
    // options on the forwarded magic fields (`attrs`, `data`): only `with` is known, once
    for tr in ALL_TR {
        if !tr.element_level() {
            continue;
        }
        let sp = [occ("with", "with = conv", true), occ("with", "with = other", true), occ("rename", "rename = \"q\"", true), occ("skip", "skip", true), occ("default", "default", true)];
        let magic: &[&str] = if tr == Tr::DeriveInput { &["attrs", "data"] } else { &["attrs"] };
        for m in magic {
            for a in &sp {
                for b in sp.iter().map(Some).chain(std::iter::once(None)) {
                    let seq: Vec<Occ> = std::iter::once(a.clone()).chain(b.cloned()).collect();
                    for split in splits(&seq) {
                        let mut f = plain_field(m);
                        f.ty = "X".into();
                        f.attrs = split;
                        let mut d = Decl {
                            tr,
                            cattrs: vec![vec![occ("attributes", "attributes(x)", true), occ("forward_attrs", "forward_attrs", true)]],
                            generics: String::new(),
                            body: Body::Named(vec![plain_field("a"), f]),
                            src: String::new(),
                        };
                        render(&mut d);
                        judge(&d, "enumerated-forwarded-field-options", c);
                    }
                }
            }
        }
    }
    // the word rules across a whole enum: every assignment of {-, word, word = true, word = false}
    // to three unit variants, with and without a container `from_word`
    let spell = [None, Some(("word", true)), Some(("word = true", true)), Some(("word = false", false))];
    for code in 0..64usize {
        for with_from_word in [false, true] {
            let mut variants = vec![];
            for k in 0..3 {
                let attrs = match spell[(code >> (2 * k)) & 3] {
                    None => vec![],
                    Some((text, on)) => vec![vec![occ("word", text, on)]],
                };
                variants.push(VariantSpec {
                    name: format!("V{k}"),
                    attrs,
                    body: VBody::Unit,
                    range: (0, 0),
                });
            }
            let mut d = Decl {
                tr: Tr::Meta,
                cattrs: if with_from_word { vec![vec![occ("from_word", "from_word = mk_word", true)]] } else { vec![] },
                generics: String::new(),
                body: Body::Enum(variants),
                src: String::new(),
            };
            render(&mut d);
            judge(&d, "enumerated-word-rules", c);
        }
    }
    for tr in ALL_TR {
        let cs = container_spellings(tr);
        for a in &cs {
            for b in &cs {
                // `from_ident` together with `default` is outside the stated option space (DESIGN §4)
                let names = [a.name, b.name];
                if names.contains(&"from_ident") && names.contains(&"default") {
                    continue;
                }
                for split in splits(&[a.clone(), b.clone()]) {
                    for body in [Body::Named(vec![plain_field("a")]), Body::Unit, Body::Tuple(vec![FieldSpec { name: None, ty: "u8".into(), attrs: vec![], range: (0, 0) }])] {
                        let mut cattrs = split.clone();
                        if tr == Tr::Attributes && !names.contains(&"attributes") {
                            cattrs.insert(0, vec![occ("attributes", "attributes(x)", true)]);
                        }
                        let mut d = Decl {
                            tr,
                            cattrs,
                            generics: String::new(),
                            body,
                            src: String::new(),
                        };
                        render(&mut d);
                        judge(&d, "enumerated-container-options", c);
                    }
                }
            }
        }
    }
}

fn random_occs(rng: &mut Rng, pool: &[Occ], clean_bias: bool) -> Vec<Vec<Occ>> {
    let n = if clean_bias { rng.weighted(&[5, 4, 2, 1]) } else { rng.weighted(&[1, 3, 3, 2, 1]) };
    let mut seq: Vec<Occ> = vec![];
    for _ in 0..n {
        let o = rng.pick(pool).clone();
        if clean_bias && seq.iter().any(|p| p.name == o.name) {
            continue;
        }
        seq.push(o);
    }
    if seq.is_empty() {
        return vec![];
    }
    let all = splits(&seq);
    all[rng.below(all.len())].clone()
}

fn random_field(rng: &mut Rng, name: Option<&str>, messy: bool) -> FieldSpec {
    let mut pool = field_spellings();
    if messy {
        pool.push(occ("bogus", "bogus", true));
        for t in ["::skip", "::rename = \"q\"", "::default", "::multiple", "skip::x"] {
            pool.push(occ("bogus", t, true));
        }
        // a literal where an option belongs is not an option either
        pool.push(occ("@literal", "\"stray\"", true));
        pool.push(occ("@literal", "7", true));
        pool.push(occ("word", "word", true));
        pool.push(occ("attributes", "attributes(q)", true));
    }
    // keep flatten rarer so that clean declarations stay common
    let mut attrs = random_occs(rng, &pool, !messy);
    if !messy {
        // a clean field: drop what would conflict with flatten
        let has_flatten = attrs.iter().flatten().any(|o| o.name == "flatten");
        if has_flatten {
            for g in attrs.iter_mut() {
                g.retain(|o| !matches!(o.name, "rename" | "with") && !(matches!(o.name, "skip" | "multiple") && o.on));
            }
            attrs.retain(|g| !g.is_empty());
        }
        let has_map = attrs.iter().flatten().any(|o| o.name == "map");
        if has_map {
            for g in attrs.iter_mut() {
                g.retain(|o| o.name != "and_then");
            }
            attrs.retain(|g| !g.is_empty());
        }
    }
    FieldSpec {
        name: name.map(|s| s.to_string()),
        ty: (*rng.pick(&["u8", "String", "Vec<u8>", "Option<T>", "T"])).to_string(),
        attrs,
        range: (0, 0),
    }
}

fn random_decl(rng: &mut Rng) -> Decl {
    let tr = *rng.pick(&ALL_TR);
    let messy_container = rng.chance(1, 5);
    let messy_body = rng.chance(1, 3);
    let mut cpool = container_spellings(tr);
    if messy_container {
        cpool.push(occ("@literal", "\"stray\"", true));
        cpool.push(occ("@literal", "true", true));
        // an option's name behind a leading `::` (or another segment) is not that option
        for t in ["::default", "::rename_all = \"snake_case\"", "::allow_unknown_fields", "::bound = \"T: Clone\"", "::map = \"f\"", "x::default"] {
            cpool.push(occ("bogus", t, true));
        }
    }
    if !messy_container {
        cpool.retain(|o| known(tr, Level::Container, o.name) && !o.text.contains("bogus") && !o.text.contains("struct_struct") && !o.text.contains("enum_enum"));
    }
    let mut cattrs = random_occs(rng, &cpool, !messy_container);
    // keep the undefined from_ident + default combination out (DESIGN §4)
    if cattrs.iter().flatten().any(|o| o.name == "from_ident") {
        for g in cattrs.iter_mut() {
            g.retain(|o| o.name != "default");
        }
        cattrs.retain(|g| !g.is_empty());
    }
    if !messy_container {
        let has_map = cattrs.iter().flatten().any(|o| o.name == "map");
        if has_map {
            for g in cattrs.iter_mut() {
                g.retain(|o| o.name != "and_then");
            }
            cattrs.retain(|g| !g.is_empty());
        }
    }
    if tr == Tr::Attributes && rng.chance(9, 10) && !cattrs.iter().flatten().any(|o| o.name == "attributes") {
        cattrs.push(vec![occ("attributes", "attributes(x)", true)]);
    }
    let names = ["a", "b", "c", "d"];
    let magic: &[&str] = match tr {
        Tr::Meta => &[],
        Tr::DeriveInput => &["ident", "attrs", "vis", "generics", "data"],
        Tr::Field => &["ident", "attrs", "vis", "ty"],
        Tr::Variant => &["ident", "attrs", "discriminant", "fields"],
        Tr::TypeParam => &["ident", "attrs", "bounds", "default"],
        Tr::Attributes => &["ident", "attrs"],
    };
    let body_choice = rng.below(20);
    let mut flatten_budget = if messy_body { 3 } else { 1 };
    let mut mk_fields = |rng: &mut Rng, n: usize, named: bool, allow_magic: bool| -> Vec<FieldSpec> {
        let mut out = vec![];
        for i in 0..n {
            let nm = if named { Some(names[i % 4]) } else { None };
            let messy_f = messy_body && rng.chance(1, 2);
            let mut f = random_field(rng, nm, messy_f);
            if f.attrs.iter().flatten().any(|o| o.name == "flatten") {
                if flatten_budget == 0 {
                    for g in f.attrs.iter_mut() {
                        g.retain(|o| o.name != "flatten");
                    }
                    f.attrs.retain(|g| !g.is_empty());
                } else {
                    flatten_budget -= 1;
                }
            }
            out.push(f);
        }
        if named && allow_magic && !magic.is_empty() && rng.chance(1, 2) {
            let m = *rng.pick(magic);
            let mut f = plain_field(m);
            f.ty = "X".into();
            f.attrs = match (magic_level(tr, m), rng.below(4)) {
                (Level::Forwarded, 0) => vec![vec![occ("with", "with = conv", true)]],
                (Level::Forwarded, 1) if messy_body => vec![vec![occ("rename", "rename = \"q\"", true)]],
                (Level::Ignored, 0) => vec![vec![occ("zzz", "zzz", true), occ("skip", "skip", true)]],
                _ => vec![],
            };
            out.push(f);
        }
        out
    };
    let body = match body_choice {
        0 => Body::Unit,
        1 => Body::Tuple(mk_fields(rng, 1, false, false)),
        2 => Body::Tuple(mk_fields(rng, 2, false, false)),
        3 if rng.chance(1, 3) => Body::Union,
        4..=7 if tr == Tr::Meta || rng.chance(1, 6) => {
            let n = rng.range(1, 4);
            let mut vars = vec![];
            let vpool_clean = variant_spellings();
            let mut word_budget = if messy_body { 3 } else { 1 };
            for i in 0..n {
                let messy_v = messy_body && rng.chance(1, 2);
                let mut pool = vpool_clean.clone();
                if messy_v {
                    pool.push(occ("bogus", "bogus", true));
                    pool.push(occ("bogus", "::skip", true));
                    pool.push(occ("bogus", "::word", true));
                    pool.push(occ("@literal", "\"stray\"", true));
                    pool.push(occ("flatten", "flatten", true));
                }
                let vbody = match rng.below(6) {
                    0 | 1 | 2 => VBody::Unit,
                    3 => VBody::Tuple(mk_fields(rng, 1, false, false)),
                    4 if messy_v => {
                        let k = if rng.chance(1, 3) { 0 } else { 2 };
                        VBody::Tuple(mk_fields(rng, k, false, false))
                    }
                    _ => VBody::Named({
                        let k = rng.range(0, 3);
                        mk_fields(rng, k, true, false)
                    }),
                };
                let unit = matches!(vbody, VBody::Unit);
                let mut attrs = random_occs(rng, &pool, !messy_v);
                if !messy_v {
                    let has_word = attrs.iter().flatten().any(|o| o.name == "word");
                    if has_word && (!unit || word_budget == 0) {
                        for g in attrs.iter_mut() {
                            g.retain(|o| o.name != "word");
                        }
                        attrs.retain(|g| !g.is_empty());
                    } else if has_word {
                        word_budget -= 1;
                    }
                }
                // a skipped multi-field tuple variant is outside the stated rules either way
                if let VBody::Tuple(t) = &vbody {
                    if t.len() != 1 {
                        for g in attrs.iter_mut() {
                            g.retain(|o| o.name != "skip");
                        }
                        attrs.retain(|g| !g.is_empty());
                    }
                }
                vars.push(VariantSpec {
                    name: format!("V{i}"),
                    attrs,
                    body: vbody,
                    range: (0, 0),
                });
            }
            // a clean enum does not combine word with from_word
            if !messy_container && !messy_body && vars.iter().any(|v| v.attrs.iter().flatten().any(|o| o.name == "word" && o.on)) {
                for g in cattrs.iter_mut() {
                    g.retain(|o| o.name != "from_word");
                }
                cattrs.retain(|g| !g.is_empty());
            }
            Body::Enum(vars)
        }
        _ => {
            let n = rng.range(0, 4);
            Body::Named(mk_fields(rng, n, true, true))
        }
    };
    // clean declarations: no from_word on unit / newtype structs, forward_attrs when attrs is declared
    if !messy_container && !messy_body {
        let unit_or_newtype = matches!(&body, Body::Unit) || matches!(&body, Body::Tuple(t) if t.len() == 1);
        if unit_or_newtype {
            for g in cattrs.iter_mut() {
                g.retain(|o| o.name != "from_word");
            }
            cattrs.retain(|g| !g.is_empty());
        }
        if let Body::Named(fs) = &body {
            if fs.iter().any(|f| f.name.as_deref() == Some("attrs")) && tr.element_level() && !cattrs.iter().flatten().any(|o| o.name == "forward_attrs") {
                cattrs.push(vec![occ("forward_attrs", "forward_attrs", true)]);
            }
        }
    }
    let generics = if rng.chance(1, 3) { "<T>".to_string() } else { String::new() };
    let mut d = Decl {
        tr,
        cattrs,
        generics,
        body,
        src: String::new(),
    };
    render(&mut d);
    d
}

pub fn run(args: &Args) -> i32 {
    let started = Instant::now();
    if let Some(p) = &args.replay {
        // a declaration cannot be re-judged from its text alone (the rule set is evaluated on the
        // generator's data), so a replay re-runs the enumerated space and the seeded random stream
        // and reports whatever it finds again; the witness text is shown for orientation.
        let v: serde_json::Value = serde_json::from_str(&std::fs::read_to_string(p).unwrap_or_default()).unwrap_or_default();
        println!("replaying seed {} (witness: {})", v["seed"], v["witness"]["input"]);
    }
    let total = args.budget(60_000, 3_000_000);
    let n = args.threads.max(1);
    let c = fan_out(args, 10, total, |w, rng, share, c| {
        enumerate_field_options(c, w, n);
        if w == 0 {
            enumerate_variant_and_container(c);
        }
        for i in 0..share {
            if i % 512 == 0 {
                proc_macro2::extra::invalidate_current_thread_spans();
            }
            let d = random_decl(rng);
            judge(&d, "random", c);
        }
    });
    conclude(args, started, c, outcome(400))
}

fn outcome(min: u64) -> Outcome {
    let mut extra = serde_json::Map::new();
    extra.insert("exhaustive_subspace".into(), json!("all ordered singles / pairs / triples of the 13 field-option spellings x every split into attributes x 6 derives; all ordered pairs of the 7 variant-option spellings x splits x {unit, struct, newtype} variant; all ordered pairs of the 20 container-option spellings x splits x {named, unit, newtype} body x 6 derives (from_ident+default excluded)"));
    Outcome {
        level: "exploration",
        rule: "receiver declarations built as data (trait, container options, body, option occurrences with well-formed values), rendered with byte ranges; the documented rule set evaluated on the data gives R (rules + loci + which of them the staged reporting is obliged to show); derive output classified: impl iff R empty, else only diagnostics, every demanded rule has a diagnostic inside its loci, no diagnostic outside all loci. Enumerated sub-space as listed plus random declarations with 0..4 violations over all body shapes, magic fields, variants. Distinct = (trait, set of violated rules, body kind, #container attributes).".into(),
        assumptions: vec![
            "`from_ident` combined with `default`, tuple bodies with zero fields and skipped multi-field tuple variants are outside the stated rule set and are not generated (DESIGN §2 C10, §4)".into(),
            "full coverage is demanded only inside the first reporting stage that has a violation, and for a cross-element rule only when its participants are otherwise clean (the property's own wording)".into(),
        ],
        min_nontrivial: min,
        exhaustive: Some(false),
        extra,
    }
}

// ------------------------------------------------------------------ C06, located diagnostics
//
// One option with a malformed value in an otherwise clean declaration: the derive must answer with
// diagnostics only, and at least one of them must be built from the tokens of that option
// ("compile-error diagnostics built from the offending tokens").

fn malformed_field() -> Vec<Occ> {
    vec![
        occ("rename", "rename = 5", true),
        occ("rename", "rename(x)", true),
        occ("rename", "rename", true),
        occ("default", "default(x)", true),
        occ("default", "default = 5", true),
        occ("with", "with = 5", true),
        occ("with", "with", true),
        occ("with", "with(x)", true),
        occ("skip", "skip = \"maybe\"", true),
        occ("skip", "skip(x)", true),
        occ("skip", "skip = 3", true),
        occ("map", "map = 5", true),
        occ("map", "map", true),
        occ("and_then", "and_then(x)", true),
        occ("multiple", "multiple = 3", true),
        occ("multiple", "multiple(x)", true),
        occ("flatten", "flatten = true", true),
        occ("flatten", "flatten(x)", true),
    ]
}

fn malformed_variant() -> Vec<Occ> {
    vec![
        occ("rename", "rename = 5", true),
        occ("rename", "rename", true),
        occ("skip", "skip = 3", true),
        occ("skip", "skip(x)", true),
        occ("word", "word = \"x\"", true),
        occ("word", "word(x)", true),
    ]
}

fn malformed_container(tr: Tr) -> Vec<Occ> {
    let mut v = vec![
        occ("rename_all", "rename_all = \"NoSuchCase\"", true),
        occ("rename_all", "rename_all = 5", true),
        occ("rename_all", "rename_all", true),
        occ("rename_all", "rename_all(x)", true),
        occ("default", "default(x)", true),
        occ("default", "default = 5", true),
        occ("map", "map", true),
        occ("map", "map = 5", true),
        occ("and_then", "and_then(x)", true),
        occ("bound", "bound = 5", true),
        occ("bound", "bound", true),
        occ("bound", "bound = \"not a predicate ((\"", true),
        occ("allow_unknown_fields", "allow_unknown_fields = \"x\"", true),
        occ("allow_unknown_fields", "allow_unknown_fields(x)", true),
    ];
    if tr == Tr::Meta {
        v.push(occ("from_word", "from_word", true));
        v.push(occ("from_word", "from_word = 5", true));
        v.push(occ("from_none", "from_none(x)", true));
    }
    if tr.element_level() {
        v.push(occ("attributes", "attributes", true));
        v.push(occ("attributes", "attributes = 5", true));
        v.push(occ("attributes", "attributes(x = 1)", true));
        v.push(occ("attributes", "attributes(\"lit\")", true));
        v.push(occ("forward_attrs", "forward_attrs = 5", true));
        v.push(occ("forward_attrs", "forward_attrs(x = 1)", true));
        v.push(occ("from_ident", "from_ident = 3", true));
        v.push(occ("from_ident", "from_ident(x)", true));
    }
    if matches!(tr, Tr::DeriveInput | Tr::Variant) {
        v.push(occ("supports", "supports", true));
        v.push(occ("supports", "supports = 5", true));
    }
    v
}

fn judge_malformed(d: &Decl, bad: R, what: &str, c: &mut Collector) {
    let Ok(di) = syn::parse_str::<syn::DeriveInput>(&d.src) else {
        c.discarded += 1;
        return;
    };
    c.eval();
    let name = d.tr.name();
    let witness = json!({"input": d.src, "derive": name, "malformed_option": what, "range": bad});
    let out = match catch(|| (d.tr.derive())(&di)) {
        Caught::Ok(ts) => ts,
        Caught::Panic { msg, loc } => {
            c.violation(format!("C06:panic:{}", vfcommon::short_loc(&loc)), format!("derive({name}) panicked on `{}`: {msg}", d.src), witness);
            return;
        }
    };
    let cl = match classify(out, name) {
        Ok(cl) => cl,
        Err(e) => {
            c.violation("C06:unparsable-output", format!("derive({name}) on `{}`: {e}", d.src), witness);
            return;
        }
    };
    let optname = what.split(|ch: char| !(ch.is_alphanumeric() || ch == '_')).next().unwrap_or("").to_string();
    if !cl.impls.is_empty() && !cl.errors.is_empty() {
        c.violation("C06:malformed:impl-and-diagnostics", format!("derive({name}) on `{}` returns an impl together with diagnostics", d.src), witness);
    } else if cl.errors.is_empty() {
        // the property allows an implementation as the answer; which spellings are tolerated is recorded
        if cl.impls.len() != 1 {
            c.violation("C06:malformed:no-impl-no-diagnostic", format!("derive({name}) on `{}` returns {} impls and no diagnostic", d.src, cl.impls.len()), witness);
        }
        c.count(&format!("tolerated.{}", what.replace(' ', "")));
    } else if !cl.errors.iter().any(|(_, sp)| matches!(sp, Some(s) if within(*s, bad))) {
        c.violation(
            format!("C06:malformed:diagnostic-not-at-the-option:{optname}"),
            format!("derive({name}) on `{}`: no diagnostic is built from the tokens of `{what}` {:?}; diagnostics: {:?}", d.src, bad, cl.errors),
            witness,
        );
    }
    c.count(&format!("malformed.{optname}"));
    c.nontrivial(&(d.tr, what.to_string()));
}

/// C06's second part: every malformed option value, on every derive that knows the option, alone
/// in a clean declaration and next to one well-formed option before or after it.
pub fn run_malformed(args: &Args) -> i32 {
    let started = Instant::now();
    let c = fan_out(args, 10, 1, |w, _rng, _share, c| {
        if w != 0 {
            return;
        }
        for tr in ALL_TR {
            // field level
            for bad in malformed_field() {
                for neighbour in [None, Some((true, occ("rename", "rename = \"other\"", true))), Some((false, occ("multiple", "multiple = false", false)))] {
                    if let Some((_, n)) = &neighbour {
                        if n.name == bad.name {
                            continue;
                        }
                    }
                    let mut attrs = vec![bad.clone()];
                    match &neighbour {
                        Some((true, n)) => attrs.insert(0, n.clone()),
                        Some((false, n)) => attrs.push(n.clone()),
                        None => {}
                    }
                    let mut f = plain_field("a");
                    let bad_idx = attrs.iter().position(|o| o.text == bad.text).unwrap();
                    f.attrs = vec![attrs];
                    let mut d = Decl {
                        tr,
                        cattrs: if tr == Tr::Attributes { vec![vec![occ("attributes", "attributes(x)", true)]] } else { vec![] },
                        generics: String::new(),
                        body: Body::Named(vec![f, plain_field("b")]),
                        src: String::new(),
                    };
                    render(&mut d);
                    let Body::Named(fs) = &d.body else { unreachable!() };
                    let r = fs[0].attrs[0][bad_idx].range;
                    judge_malformed(&d, r, &bad.text, c);
                }
            }
            // container level
            for bad in malformed_container(tr) {
                for before in [false, true] {
                    let mut group = vec![bad.clone()];
                    if before {
                        group.insert(0, occ("allow_unknown_fields", "allow_unknown_fields", true));
                        if bad.name == "allow_unknown_fields" {
                            continue;
                        }
                    }
                    let mut cattrs = vec![group];
                    if tr == Tr::Attributes && bad.name != "attributes" {
                        cattrs.push(vec![occ("attributes", "attributes(x)", true)]);
                    }
                    let mut d = Decl {
                        tr,
                        cattrs,
                        generics: String::new(),
                        body: Body::Named(vec![plain_field("a")]),
                        src: String::new(),
                    };
                    render(&mut d);
                    let r = d.cattrs[0].iter().find(|o| o.text == bad.text).unwrap().range;
                    judge_malformed(&d, r, &bad.text, c);
                }
            }
        }
        // variant level (derive(FromMeta) on an enum)
        for bad in malformed_variant() {
            let mut d = Decl {
                tr: Tr::Meta,
                cattrs: vec![],
                generics: String::new(),
                body: Body::Enum(vec![
                    VariantSpec { name: "First".into(), attrs: vec![vec![bad.clone()]], body: VBody::Unit, range: (0, 0) },
                    VariantSpec { name: "Second".into(), attrs: vec![], body: VBody::Unit, range: (0, 0) },
                ]),
                src: String::new(),
            };
            render(&mut d);
            let Body::Enum(vs) = &d.body else { unreachable!() };
            let r = vs[0].attrs[0][0].range;
            judge_malformed(&d, r, &bad.text, c);
        }
    });
    conclude(
        args,
        started,
        c,
        Outcome {
            level: "exploration",
            rule: "every malformed value of every derive option (wrong literal kind, wrong meta form, missing value, unparsable string; 18 field, 6 variant, 14..27 container spellings), alone or next to one well-formed option, in an otherwise clean declaration, for each derive that knows the option: the output is either exactly one impl (the spelling is tolerated: counted, not judged) or diagnostics only, and then at least one diagnostic's span must lie inside the malformed option's own tokens. Distinct = (derive, spelling).".into(),
            assumptions: vec!["which values are malformed is taken from the option's documented type (string, path, bool, word-only flag, list of words)".into()],
            min_nontrivial: 150,
            exhaustive: Some(true),
            extra: serde_json::Map::new(),
        },
    )
}
