//! C16 (API half): ast::Fields / ast::Data / ast::Generics with the library's own implementers
//! mirror the input element, and a converted field list prints back as the original fields.

use crate::tok::{canon, canon_of};
use darling::ast::{self, GenericParam, GenericParamExt};
use darling::{FromGenerics, FromVariant};
use quote::ToTokens;
use serde_json::json;
use std::time::Instant;
use vfcommon::{catch, conclude, fan_out, Args, Caught, Collector, Outcome, Rng};

const VIS: [&str; 5] = ["", "pub ", "pub(crate) ", "pub(in a::b) ", "pub(super) "];
const TYPES: [&str; 7] = ["u8", "String", "Vec<T>", "&'a str", "[u8; N]", "(u8, T)", "Option<Box<dyn Fn(T) -> u8>>"];
const ATTRS: [&str; 5] = ["", "#[doc = \"x\"] ", "/// doc\n", "#[serde(skip)] ", "#[a] #[b(c = 1)] "];

fn fields_text(rng: &mut Rng, named: bool, n: usize) -> Vec<String> {
    (0..n)
        .map(|i| {
            let a = *rng.pick(&ATTRS);
            let v = *rng.pick(&VIS);
            let t = *rng.pick(&TYPES);
            if named {
                format!("{a}{v}f{i}: {t}")
            } else {
                format!("{a}{v}{t}")
            }
        })
        .collect()
}

fn strip_trailing_comma(s: &str) -> String {
    // canonical token strings: `{ a : u8 , }` -> `{ a : u8 }`; a comma with no field in front of it is
    // not a trailing comma (`{ , }` is not a field list at all)
    if s.contains("{ , }") || s.contains("( , )") {
        return s.to_string();
    }
    s.replace(", } ", "} ").replace(", ) ", ") ")
}

fn case(rng: &mut Rng, c: &mut Collector) {
    c.eval();
    let style = rng.below(3);
    let n = if style == 2 { 0 } else { rng.below(7) };
    let fs = fields_text(rng, style == 0, n);
    let trailing = if n > 0 && rng.coin() { "," } else { "" };
    let body = match style {
        0 => format!("{{ {}{trailing} }}", fs.join(", ")),
        1 => format!("({}{trailing});", fs.join(", ")),
        _ => ";".to_string(),
    };
    // lifetime parameters also come with inline bounds and attributes: a converted parameter list
    // hands each one on whole, not just its name
    let gen = *rng.pick(&[
        "",
        "<'a, T, const N: usize>",
        "<'a, T: Clone, U = u8, const N: usize>",
        "<'a, 'b: 'a, T, const N: usize>",
        "<#[cfg(all())] 'a, 'b: 'a + 'a, T: 'b + Clone, const N: usize>",
    ]);
    let wh = if !gen.is_empty() && rng.coin() { " where T: Default" } else { "" };
    let src = if style == 0 { format!("struct S{gen}{wh} {body}") } else { format!("struct S{gen}{} {wh}{}", body.trim_end_matches(';'), ";") };
    let Ok(di) = syn::parse_str::<syn::DeriveInput>(&src) else {
        c.discarded += 1;
        return;
    };
    let syn::Data::Struct(ds) = &di.data else { return };
    let mut fail = |c: &mut Collector, class: &str, what: String| {
        c.violation(format!("C16:api:{class}"), what.clone(), json!({"input": src, "failure": what}));
    };
    match catch(|| ast::Fields::<syn::Field>::try_from(&ds.fields)) {
        Caught::Panic { msg, .. } => fail(c, "panic", format!("Fields::try_from panicked on `{src}`: {msg}")),
        Caught::Ok(Err(e)) => fail(c, "fields-rejected", format!("Fields::<syn::Field>::try_from failed on `{src}`: {e}")),
        Caught::Ok(Ok(f)) => {
            let want_style = match &ds.fields {
                syn::Fields::Named(_) => ast::Style::Struct,
                syn::Fields::Unnamed(_) => ast::Style::Tuple,
                syn::Fields::Unit => ast::Style::Unit,
            };
            if f.style != want_style {
                fail(c, "style", format!("`{src}`: style {:?}, expected {:?}", f.style, want_style));
            }
            let orig: Vec<String> = ds.fields.iter().map(canon_of).collect();
            let got: Vec<String> = f.fields.iter().map(canon_of).collect();
            if orig != got {
                fail(c, "fields-differ", format!("`{src}`: converted fields {got:?}, input {orig:?}"));
            }
            if f.len() != n || f.is_empty() != (n == 0) || f.is_newtype() != (style == 1 && n == 1) {
                fail(c, "len", format!("`{src}`: len {} / is_empty {} / is_newtype {}", f.len(), f.is_empty(), f.is_newtype()));
            }
            // re-printing reproduces the original fields up to a trailing comma
            let printed = strip_trailing_comma(&canon(f.to_token_stream()));
            let original = strip_trailing_comma(&canon(ds.fields.to_token_stream()));
            if printed != original {
                fail(c, "reprint", format!("`{src}`: fields print as `{printed}`, written `{original}`"));
            }
            // map / as_ref keep order and style
            let mapped = f.clone().map(|x| canon_of(&x.ty));
            if mapped.style != f.style || mapped.fields != ds.fields.iter().map(|x| canon_of(&x.ty)).collect::<Vec<_>>() {
                fail(c, "map", format!("`{src}`: Fields::map changed order or style"));
            }
        }
    }
    // whole bodies
    let kinds = ["enum", "union"];
    let k = *rng.pick(&kinds);
    let nv = rng.below(7);
    let body_src = if k == "enum" {
        let vs: Vec<String> = (0..nv)
            .map(|i| match rng.below(4) {
                0 => format!("V{i}"),
                1 => format!("V{i} = {}", i * 2),
                2 => {
                    let k = rng.below(3);
                    format!("V{i}({})", fields_text(rng, false, k).join(", "))
                }
                _ => {
                    let k = rng.below(3);
                    format!("V{i} {{ {} }}", fields_text(rng, true, k).join(", "))
                }
            })
            .collect();
        format!("enum E{gen}{wh} {{ {} }}", vs.join(", "))
    } else {
        format!("union U{gen}{wh} {{ a: u8, b: u16 }}")
    };
    if let Ok(di2) = syn::parse_str::<syn::DeriveInput>(&body_src) {
        c.eval();
        match catch(|| ast::Data::<syn::Variant, syn::Field>::try_from(&di2.data)) {
            Caught::Panic { msg, .. } => fail(c, "panic", format!("Data::try_from panicked on `{body_src}`: {msg}")),
            Caught::Ok(res) => match (&di2.data, res) {
                (syn::Data::Union(_), Ok(_)) => fail(c, "union-accepted", format!("`{body_src}`: a union converted successfully")),
                (syn::Data::Union(_), Err(e)) => {
                    if e.len() != 1 {
                        fail(c, "union-error", format!("union error has {} leaves", e.len()));
                    }
                }
                (syn::Data::Enum(en), Ok(d)) => {
                    let vs = d.take_enum().unwrap_or_default();
                    let orig: Vec<String> = en.variants.iter().map(canon_of).collect();
                    let got: Vec<String> = vs.iter().map(canon_of).collect();
                    if orig != got {
                        fail(c, "variants-differ", format!("`{body_src}`: converted variants {got:?}, input {orig:?}"));
                    }
                    // library implementers of FromVariant keep ident / discriminant / fields
                    for v in &en.variants {
                        let same = syn::Variant::from_variant(v).map(|x| canon_of(&x)).ok();
                        if same != Some(canon_of(v)) {
                            fail(c, "from-variant", format!("syn::Variant::from_variant changed `{}`", canon_of(v)));
                        }
                    }
                }
                (_, Err(e)) => fail(c, "body-rejected", format!("`{body_src}` rejected: {e}")),
                _ => {}
            },
        }
        // generics
        let g = &di2.generics;
        match ast::Generics::<GenericParam>::from_generics(g) {
            Err(e) => fail(c, "generics-rejected", format!("`{body_src}`: {e}")),
            Ok(ag) => {
                if ag.params.len() != g.params.len() {
                    fail(c, "generics-len", format!("`{body_src}`: {} params, input has {}", ag.params.len(), g.params.len()));
                }
                for (a, b) in ag.params.iter().zip(g.params.iter()) {
                    let same = match (a, b) {
                        (GenericParam::Type(x), syn::GenericParam::Type(y)) => canon_of(x) == canon_of(y),
                        (GenericParam::Lifetime(x), syn::GenericParam::Lifetime(y)) => canon_of(x) == canon_of(y),
                        (GenericParam::Const(x), syn::GenericParam::Const(y)) => canon_of(x) == canon_of(y),
                        _ => false,
                    };
                    if !same {
                        fail(c, "generics-param", format!("`{body_src}`: a parameter changed kind or tokens"));
                    }
                }
                if ag.where_clause.as_ref().map(canon_of) != g.where_clause.as_ref().map(canon_of) {
                    fail(c, "where-clause", format!("`{body_src}`: where-clause differs"));
                }
                let tp: Vec<String> = ag.type_params().map(|t| t.ident.to_string()).collect();
                let want: Vec<String> = g.type_params().map(|t| t.ident.to_string()).collect();
                if tp != want {
                    fail(c, "type-params-iter", format!("`{body_src}`: type_params() yields {tp:?}, expected {want:?}"));
                }
                let _ = ag.params.first().map(|p| p.as_type_param().is_some());
            }
        }
        match syn::Generics::from_generics(g) {
            Ok(x) if canon_of(&x) == canon_of(g) && x.where_clause.as_ref().map(canon_of) == g.where_clause.as_ref().map(canon_of) => {}
            _ => fail(c, "generics-clone", format!("`{body_src}`: syn::Generics::from_generics changed the generics")),
        }
    }
    c.nontrivial(&(style, n, k, nv, gen.len(), wh.len()));
    if c.samples.len() < c.max_samples && c.evaluations % 4001 == 0 {
        c.sample(|| json!({"struct": src, "body": body_src}));
    }
}

pub fn run(args: &Args) -> i32 {
    let started = Instant::now();
    let total = args.budget(40_000, 3_000_000);
    let c = fan_out(args, 16, total, |_, rng, share, c| {
        for i in 0..share {
            if i % 512 == 0 {
                proc_macro2::extra::invalidate_current_thread_spans();
            }
            case(rng, c);
        }
    });
    conclude(
        args,
        started,
        c,
        Outcome {
            level: "exploration",
            rule: "random structs (named / tuple / unit, 0..6 fields with attributes, every visibility form, generic types), enums (0..6 mixed variants with discriminants) and unions, with and without generics / where-clauses: ast::Fields<syn::Field>, ast::Data<syn::Variant, syn::Field>, ast::Generics<GenericParam> and the library's own FromVariant / FromGenerics implementers must mirror the input (style, length, order, tokens), unions must fail with one error, and printing a converted field list must reproduce the original fields up to a trailing comma. Distinct = (style, #fields, body kind, #variants, generics, where).".into(),
            assumptions: vec![],
            min_nontrivial: 100,
            exhaustive: None,
            extra: Default::default(),
        },
    )
}
