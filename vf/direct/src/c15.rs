//! C15: (a) splitting a token stream into nested meta items, (b) routing of one item to
//! exactly one conversion hook, over all 2^7 subsets of overridden hooks.

use crate::gram;
use crate::tok;
use crate::probes_gen::PROBES;
use darling::ast::NestedMeta;
use darling::Error;
use proc_macro2::{Delimiter, Span, TokenStream, TokenTree};
use quote::{quote, ToTokens};
use serde_json::json;
use std::cell::{Cell, RefCell};
use std::time::Instant;
use syn::spanned::Spanned;
use syn::{Expr, Lit, Meta};
use vfcommon::{catch, conclude, fan_out, span_range, Args, Caught, Collector, Outcome, Rng};

// ---------------------------------------------------------------- probe plumbing

thread_local! {
    static LOG: RefCell<Vec<(String, String)>> = const { RefCell::new(vec![]) };
    static MODE: Cell<u8> = const { Cell::new(0) };
    static PRESPAN: RefCell<Option<Span>> = const { RefCell::new(None) };
}

pub fn log_hook(name: &str, arg: String) {
    LOG.with(|l| l.borrow_mut().push((name.to_string(), arg)));
}

pub fn show<T: ToTokens>(t: &T) -> String {
    tok::canon_of(t)
}

pub fn show_items(items: &[NestedMeta]) -> String {
    format!("{}:{}", items.len(), items.iter().map(show).collect::<Vec<_>>().join(" , "))
}

/// 0 = Ok, 1 = unspanned error, 2 = pre-spanned error
pub fn hook_result() -> darling::Result<()> {
    match MODE.with(|m| m.get()) {
        0 => Ok(()),
        1 => Err(Error::custom("probe-error")),
        _ => Err(Error::custom("probe-error-prespanned").with_span(&PRESPAN.with(|p| p.borrow().expect("prespan set")))),
    }
}

const PRESPAN_SRC: &str = "PRESPAN_TOKEN_for_probe";

// ---------------------------------------------------------------- (b) routing

#[derive(Clone, Debug)]
struct Form {
    text: String,
    /// wrap the name-value's value in this many invisible groups
    groups: usize,
    /// deliver as a nested item (from_nested_meta) instead of from_meta
    nested: bool,
}

fn forms() -> Vec<Form> {
    let mut v = vec![];
    let f = |t: &str, g: usize, n: bool| Form {
        text: t.to_string(),
        groups: g,
        nested: n,
    };
    for t in ["x", "a::b", "::g::h", "r#type"] {
        v.push(f(t, 0, false));
    }
    for t in ["x()", "x(a)", "x(a, b = 1, \"lit\")", "x[a, 2]", "x{a = |p, q| p, c}", "x(a(b(c)), -1, true)", "x(a,)"] {
        v.push(f(t, 0, false));
    }
    let values = [
        "true", "false", "\"str\"", "r#\"raw\"#", "\"\"", "'c'", "5", "-5", "0xff_u8", "1.5", "-2.5e3", "b'x'", "b\"xy\"", "c\"cs\"",
        "a::b", "foo", "1 + 2", "|a| a", "|a, b| a", "[1, 2]", "-x", "(1)", "f(1)", "1..2", "{ 1 }", "&1", "m!(1)",
        // `-` or `!` applied to a literal that is not a number is an expression like `-x`
        "-\"s\"", "-true", "-'c'", "-b'c'", "!\"s\"", "!true",
    ];
    for val in values {
        v.push(f(&format!("x = {val}"), 0, false));
    }
    for val in ["true", "\"str\"", "'c'", "5", "1.5", "b'x'", "a::b", "1 + 2"] {
        v.push(f(&format!("x = {val}"), 1, false));
    }
    for val in ["false", "\"s\"", "'d'", "7", "foo"] {
        v.push(f(&format!("x = {val}"), 2, false));
    }
    // nested positions
    for t in ["true", "\"str\"", "'c'", "5", "-5", "1.5", "b'x'", "b\"xy\"", "x", "x(a, b)", "x = true", "x = \"s\"", "x = a::b", "y = 9"] {
        v.push(f(t, 0, true));
    }
    v
}

fn wrap_groups(e: Expr, n: usize) -> Expr {
    let mut e = e;
    for _ in 0..n {
        let sp = e.span();
        e = Expr::Group(syn::ExprGroup {
            attrs: vec![],
            group_token: syn::token::Group { span: sp },
            expr: Box::new(e),
        });
    }
    e
}

#[derive(Debug, Clone, PartialEq)]
enum Route {
    Hook(&'static str, String),
    DefaultFormat(&'static str),
    DefaultType,
}

fn route_value(mask: u8, lit: &Lit) -> Route {
    if mask & 32 != 0 {
        return Route::Hook("value", show(lit));
    }
    match lit {
        Lit::Bool(b) => {
            if mask & 4 != 0 {
                Route::Hook("bool", b.value.to_string())
            } else {
                Route::DefaultType
            }
        }
        Lit::Str(s) => {
            if mask & 8 != 0 {
                Route::Hook("string", s.value())
            } else {
                Route::DefaultType
            }
        }
        Lit::Char(ch) => {
            if mask & 16 != 0 {
                Route::Hook("char", ch.value().to_string())
            } else {
                Route::DefaultType
            }
        }
        _ => Route::DefaultType,
    }
}

fn route_expr(mask: u8, e: &Expr) -> Route {
    if mask & 64 != 0 {
        return Route::Hook("expr", show(e));
    }
    match e {
        Expr::Lit(l) => route_value(mask, &l.lit),
        Expr::Group(g) => route_expr(mask, &g.expr),
        _ => Route::DefaultType,
    }
}

fn route_meta(mask: u8, m: &Meta, split: &Option<Vec<String>>) -> Route {
    match m {
        Meta::Path(_) => {
            if mask & 1 != 0 {
                Route::Hook("word", String::new())
            } else {
                Route::DefaultFormat("word")
            }
        }
        Meta::List(_) => {
            if mask & 2 != 0 {
                let items = split.clone().unwrap_or_default();
                Route::Hook("list", format!("{}:{}", items.len(), items.join(" , ")))
            } else {
                Route::DefaultFormat("list")
            }
        }
        Meta::NameValue(nv) => route_expr(mask, &nv.value),
    }
}

/// Independent split of a list body into item token strings: top-level commas of the token
/// trees (groups are atomic); commas of closure parameter lists are re-joined by construction
/// knowledge of the fixed forms above (only `|p, q| p` occurs).
fn split_list_body(m: &Meta) -> Option<Vec<String>> {
    let Meta::List(l) = m else { return None };
    let mut items: Vec<TokenStream> = vec![];
    let mut cur = TokenStream::new();
    let mut bars = 0;
    for tt in l.tokens.clone() {
        match &tt {
            TokenTree::Punct(p) if p.as_char() == '|' => {
                bars += 1;
                cur.extend([tt]);
            }
            TokenTree::Punct(p) if p.as_char() == ',' && bars % 2 == 0 => {
                items.push(std::mem::take(&mut cur));
            }
            _ => cur.extend([tt]),
        }
    }
    if !cur.is_empty() {
        items.push(cur);
    }
    Some(items.into_iter().map(tok::canon).collect())
}

fn run_routing(c: &mut Collector) {
    let forms = forms();
    let pre: TokenStream = syn::parse_str(PRESPAN_SRC).unwrap();
    let pre_span = pre.into_iter().next().unwrap().span();
    PRESPAN.with(|p| *p.borrow_mut() = Some(pre_span));
    for form in &forms {
        // build the argument once per form
        let (meta, nested): (Option<Meta>, Option<NestedMeta>) = if form.nested {
            let ts: TokenStream = syn::parse_str(&form.text).expect("form lexes");
            // darling's own parser: a valid form it rejects is an observation, not a harness fault
            let mut items = match catch(|| NestedMeta::parse_meta_list(ts)) {
                Caught::Ok(Ok(items)) if !items.is_empty() => items,
                other => {
                    c.eval();
                    let what = match other {
                        Caught::Ok(Ok(_)) => "no items".to_string(),
                        Caught::Ok(Err(e)) => e.to_string(),
                        Caught::Panic { msg, .. } => format!("panic: {msg}"),
                    };
                    c.violation("C15:routing:valid-item-rejected", format!("parse_meta_list rejects the valid nested item `{}`: {what}", form.text), json!({"input": form.text}));
                    continue;
                }
            };
            (None, Some(items.remove(0)))
        } else {
            let mut m: Meta = syn::parse_str(&form.text).expect("form parses");
            if form.groups > 0 {
                if let Meta::NameValue(nv) = &mut m {
                    nv.value = wrap_groups(nv.value.clone(), form.groups);
                }
            }
            (Some(m), None)
        };
        let item_range = (0usize, form.text.len());
        let split = meta.as_ref().and_then(split_list_body).or_else(|| match &nested {
            Some(NestedMeta::Meta(m)) => split_list_body(m),
            _ => None,
        });
        for (mask, mfn, nfn) in PROBES.iter() {
            let want = match (&meta, &nested) {
                (Some(m), _) => route_meta(*mask, m, &split),
                (_, Some(NestedMeta::Meta(m))) => route_meta(*mask, m, &split),
                (_, Some(NestedMeta::Lit(l))) => route_value(*mask, l),
                _ => unreachable!(),
            };
            for mode in 0u8..3 {
                MODE.with(|m| m.set(mode));
                LOG.with(|l| l.borrow_mut().clear());
                c.eval();
                let res = catch(|| match (&meta, &nested) {
                    (Some(m), _) => mfn(m),
                    (_, Some(n)) => nfn(n),
                    _ => unreachable!(),
                });
                let log: Vec<(String, String)> = LOG.with(|l| l.borrow().clone());
                let input = format!("{}{}{}", form.text, if form.groups > 0 { format!(" [value in {} invisible group(s)]", form.groups) } else { String::new() }, if form.nested { " [nested position]" } else { "" });
                let mode_name = ["Ok", "unspanned Err", "pre-spanned Err"][mode as usize];
                let witness = json!({"input": input, "hook_mask": mask, "hooks_overridden": mask_names(*mask), "hook_returns": mode_name, "expected_route": format!("{want:?}"), "observed_calls": log});
                let res = match res {
                    Caught::Ok(r) => r,
                    Caught::Panic { msg, loc } => {
                        c.violation(format!("C15:routing:panic:{}", vfcommon::short_loc(&loc)), format!("routing `{input}` panicked: {msg}"), witness);
                        continue;
                    }
                };
                let mut fail = |class: &str, what: String| {
                    let mut w = witness.clone();
                    w["failure"] = json!(what);
                    w["result"] = json!(match &res {
                        Ok(()) => "Ok".to_string(),
                        Err(e) => format!("Err({e})"),
                    });
                    c.violation(format!("C15:routing:{class}"), what, w);
                };
                match &want {
                    Route::Hook(name, arg) => {
                        if log.len() != 1 {
                            fail(if log.is_empty() { "hook-not-called" } else { "several-hooks-called" }, format!("`{input}` with hooks {:?}: {} hook calls {:?}, expected exactly {name}", mask_names(*mask), log.len(), log));
                        } else if log[0].0 != *name {
                            fail("wrong-hook", format!("`{input}` with hooks {:?} went to {} instead of {name}", mask_names(*mask), log[0].0));
                        } else if log[0].1 != *arg {
                            fail("wrong-argument", format!("`{input}`: hook {name} received {:?}, expected {:?}", log[0].1, arg));
                        }
                        match (mode, &res) {
                            (0, Ok(())) => {}
                            (0, Err(e)) => fail("hook-ok-became-error", format!("`{input}`: hook returned Ok, caller saw {e}")),
                            (_, Ok(())) => fail("hook-error-swallowed", format!("`{input}`: hook returned an error, caller saw Ok")),
                            (1, Err(e)) => match e.explicit_span().and_then(span_range) {
                                None => fail("hook-error-unspanned", format!("`{input}`: unspanned error from hook {name} came back without the item's span")),
                                Some((lo, hi)) => {
                                    if lo < item_range.0 || hi > item_range.1 || e.explicit_span().and_then(|s| s.source_text()).as_deref() == Some(PRESPAN_SRC) {
                                        fail("hook-error-span-outside", format!("`{input}`: error from hook {name} came back at [{lo},{hi}), outside the item"));
                                    }
                                }
                            },
                            (_, Err(e)) => {
                                if e.explicit_span().and_then(|s| s.source_text()).as_deref() != Some(PRESPAN_SRC) {
                                    fail("hook-error-span-replaced", format!("`{input}`: pre-spanned error from hook {name} came back with a different span"));
                                }
                            }
                        }
                    }
                    Route::DefaultFormat(_) | Route::DefaultType => {
                        if !log.is_empty() {
                            fail("unexpected-hook-call", format!("`{input}` with hooks {:?}: called {:?}, no overridden hook applies", mask_names(*mask), log));
                        }
                        match &res {
                            Ok(()) => fail("default-accepted", format!("`{input}` with hooks {:?} succeeded although no applicable hook is overridden", mask_names(*mask))),
                            Err(e) => {
                                let d = e.to_string();
                                let ok_kind = match &want {
                                    Route::DefaultFormat(w) => d.starts_with("Unexpected meta-item format") && d.contains(w),
                                    _ => d.starts_with("Unexpected type"),
                                };
                                // the type the rejection names is the item's: an expression that is no literal
                                // (`-x`, `-"s"`, `1 + 2`) is not called by a literal's name
                                const LIT_NAMES: [&str; 7] = ["`string`", "`byte string`", "`byte`", "`char`", "`int`", "`float`", "`bool`"];
                                if matches!(want, Route::DefaultType) {
                                    let value: Option<&syn::Expr> = match (&meta, &nested) {
                                        (Some(Meta::NameValue(nv)), _) => Some(&nv.value),
                                        (_, Some(NestedMeta::Meta(Meta::NameValue(nv)))) => Some(&nv.value),
                                        _ => None,
                                    };
                                    if let Some(v) = value {
                                        let mut v = v;
                                        while let syn::Expr::Group(g) = v {
                                            v = &g.expr;
                                        }
                                        let is_lit = match v {
                                            syn::Expr::Lit(_) => true,
                                            syn::Expr::Unary(u) if matches!(u.op, syn::UnOp::Neg(_)) => {
                                                let mut o = &*u.expr;
                                                while let syn::Expr::Group(g) = o {
                                                    o = &g.expr;
                                                }
                                                matches!(o, syn::Expr::Lit(l) if matches!(l.lit, syn::Lit::Int(_) | syn::Lit::Float(_)))
                                            }
                                            _ => false,
                                        };
                                        let names_lit = LIT_NAMES.iter().any(|n| d.contains(n));
                                        // (the other direction is not judged: C-string and verbatim literals have no
                                        // name of their own)
                                        if !is_lit && names_lit {
                                            fail("default-error-names-other-type", format!("`{input}`: default rejection says {d:?} for an expression that is no literal"));
                                        }
                                    }
                                }
                                if !ok_kind {
                                    fail("default-error-kind", format!("`{input}`: default rejection says {d:?}, expected the {} kind", if matches!(want, Route::DefaultType) { "unexpected-type" } else { "unsupported-format" }));
                                }
                                match e.explicit_span().and_then(span_range) {
                                    None => fail("default-error-unspanned", format!("`{input}`: default rejection {d:?} has no span")),
                                    Some((lo, hi)) => {
                                        if lo < item_range.0 || hi > item_range.1 {
                                            fail("default-error-span-outside", format!("`{input}`: default rejection at [{lo},{hi}) outside the item"));
                                        }
                                    }
                                }
                            }
                        }
                    }
                }
                c.nontrivial(&(form.text.clone(), form.groups, form.nested, *mask, mode));
                if c.samples.len() < 3 && *mask == 77 && mode == 1 {
                    c.sample(|| witness.clone());
                }
            }
        }
        c.count("routing.forms");
    }
    c.count_n("routing.masks", 128);
}

fn mask_names(mask: u8) -> Vec<&'static str> {
    ["word", "list", "bool", "string", "char", "value", "expr"]
        .iter()
        .enumerate()
        .filter(|(i, _)| mask & (1 << i) != 0)
        .map(|(_, n)| *n)
        .collect()
}

// ---------------------------------------------------------------- (a) splitting

#[derive(Clone, Debug)]
struct GenItem {
    text: String,
    kind: &'static str,
    /// has a comma outside every delimiter group (closure parameters / turbofish)
    loose_comma: bool,
}

fn gen_item(rng: &mut Rng, depth: usize) -> GenItem {
    match rng.weighted(&[3, 3, 3, 5]) {
        0 => GenItem {
            text: gram::lit(rng),
            kind: "lit",
            loose_comma: false,
        },
        1 => GenItem {
            text: gram::meta_path(rng),
            kind: "path",
            loose_comma: false,
        },
        2 if depth > 0 => {
            let (open, close) = *rng.pick(&[("(", ")"), ("[", "]"), ("{", "}")]);
            let inner = gen_list(rng, depth - 1);
            GenItem {
                text: format!("{}{open}{}{close}", gram::meta_path(rng), render(&inner, rng)),
                kind: "list",
                loose_comma: false,
            }
        }
        2 => GenItem {
            text: format!("{}()", gram::meta_path(rng)),
            kind: "list",
            loose_comma: false,
        },
        _ => {
            let (e, comma) = gram::expr(rng, 3);
            GenItem {
                text: format!("{} = {}", gram::meta_path(rng), e),
                kind: "nv",
                loose_comma: comma,
            }
        }
    }
}

fn gen_list(rng: &mut Rng, depth: usize) -> Vec<GenItem> {
    let n = if rng.chance(1, 10) { 0 } else { rng.range(1, 6) };
    (0..n).map(|_| gen_item(rng, depth)).collect()
}

fn render(items: &[GenItem], rng: &mut Rng) -> String {
    let mut s = items.iter().map(|i| i.text.clone()).collect::<Vec<_>>().join(if rng.coin() { ", " } else { "," });
    if !items.is_empty() && rng.chance(1, 4) {
        s.push(',');
    }
    s
}

/// equality of two items as values (spans aside)
fn same_item(a: &NestedMeta, b: &NestedMeta) -> bool {
    match (a, b) {
        (NestedMeta::Meta(x), NestedMeta::Meta(y)) => x == y,
        (NestedMeta::Lit(x), NestedMeta::Lit(y)) => x == y,
        _ => false,
    }
}

fn kind_of(n: &NestedMeta) -> &'static str {
    match n {
        NestedMeta::Lit(_) => "lit",
        NestedMeta::Meta(Meta::Path(_)) => "path",
        NestedMeta::Meta(Meta::List(_)) => "list",
        NestedMeta::Meta(Meta::NameValue(_)) => "nv",
    }
}

fn norm(s: &str) -> String {
    tok::canon_str(s).unwrap_or_else(|| s.to_string())
}

/// Independent recogniser for streams whose items have no loose commas: split the token trees on
/// commas and require each segment to be a literal or `path`, `path <group>`, `path = <expr>`.
fn recognise(ts: &TokenStream) -> Result<Vec<&'static str>, String> {
    let mut segs: Vec<Vec<TokenTree>> = vec![vec![]];
    for tt in ts.clone() {
        match &tt {
            TokenTree::Punct(p) if p.as_char() == ',' => segs.push(vec![]),
            _ => segs.last_mut().unwrap().push(tt),
        }
    }
    if segs.last().map(|s| s.is_empty()).unwrap_or(false) {
        segs.pop();
    }
    let mut kinds = vec![];
    for (i, seg) in segs.iter().enumerate() {
        if seg.is_empty() {
            return Err(format!("empty item {i}"));
        }
        let stream: TokenStream = seg.iter().cloned().collect();
        // `true = ..`-style keyword names are not generated
        if syn::parse2::<Lit>(stream.clone()).is_ok() {
            kinds.push("lit");
            continue;
        }
        // path
        let mut j = 0;
        let is_colon2 = |a: Option<&TokenTree>, b: Option<&TokenTree>| matches!((a, b), (Some(TokenTree::Punct(p)), Some(TokenTree::Punct(q))) if p.as_char() == ':' && q.as_char() == ':' && p.spacing() == proc_macro2::Spacing::Joint);
        if is_colon2(seg.first(), seg.get(1)) {
            j = 2;
        }
        let mut segs_seen = 0;
        loop {
            match seg.get(j) {
                Some(TokenTree::Ident(id)) => {
                    let name = id.to_string();
                    if tok::KEYWORDS.contains(&name.as_str()) && !(segs_seen == 0 && ["crate", "self", "super"].contains(&name.as_str())) {
                        return Err(format!("KEYWORD item {i}: keyword `{name}` as a path segment"));
                    }
                    j += 1;
                    segs_seen += 1;
                }
                _ => return Err(format!("item {i}: expected a path segment")),
            }
            if is_colon2(seg.get(j), seg.get(j + 1)) {
                j += 2;
            } else {
                break;
            }
        }
        let _ = segs_seen;
        match seg.get(j) {
            None => kinds.push("path"),
            Some(TokenTree::Group(g)) if g.delimiter() != Delimiter::None && j + 1 == seg.len() => kinds.push("list"),
            Some(TokenTree::Punct(p)) if p.as_char() == '=' && p.spacing() == proc_macro2::Spacing::Alone => {
                let rest: TokenStream = seg[j + 1..].iter().cloned().collect();
                if rest.is_empty() {
                    return Err(format!("item {i}: missing value"));
                }
                syn::parse2::<Expr>(rest).map_err(|e| format!("item {i}: value is not an expression: {e}"))?;
                kinds.push("nv");
            }
            _ => return Err(format!("item {i}: unexpected token after the name")),
        }
    }
    Ok(kinds)
}

fn mutate(ts: &TokenStream, rng: &mut Rng) -> (TokenStream, &'static str) {
    let v: Vec<TokenTree> = ts.clone().into_iter().collect();
    let commas: Vec<usize> = v.iter().enumerate().filter(|(_, t)| matches!(t, TokenTree::Punct(p) if p.as_char() == ',')).map(|(i, _)| i).collect();
    let mut out = v.clone();
    let kind = match rng.below(6) {
        0 if !commas.is_empty() => {
            out.remove(*rng.pick(&commas));
            "drop-comma"
        }
        1 if !commas.is_empty() => {
            let i = *rng.pick(&commas);
            out.insert(i, v[i].clone());
            "double-comma"
        }
        2 => {
            let i = rng.below(v.len() + 1);
            let ch = *rng.pick(&[';', '#', '@', '!', '?', '=', ':', '$', '+']);
            out.insert(i, TokenTree::Punct(proc_macro2::Punct::new(ch, proc_macro2::Spacing::Alone)));
            "stray-punct"
        }
        3 => {
            // missing value: cut everything after an `=` up to the next comma
            if let Some(eq) = v.iter().position(|t| matches!(t, TokenTree::Punct(p) if p.as_char() == '=' && p.spacing() == proc_macro2::Spacing::Alone)) {
                let end = v[eq..].iter().position(|t| matches!(t, TokenTree::Punct(p) if p.as_char() == ',')).map(|k| eq + k).unwrap_or(v.len());
                out.drain(eq + 1..end);
                "missing-value"
            } else {
                out.insert(0, TokenTree::Punct(proc_macro2::Punct::new(',', proc_macro2::Spacing::Alone)));
                "leading-comma"
            }
        }
        4 => {
            out.insert(0, TokenTree::Punct(proc_macro2::Punct::new(',', proc_macro2::Spacing::Alone)));
            "leading-comma"
        }
        _ => {
            if !v.is_empty() {
                let i = rng.below(v.len());
                out.remove(i);
            }
            "drop-token"
        }
    };
    (out.into_iter().collect(), kind)
}

/// `.., name = <literal>[,]` with that literal inside an invisible group
fn group_last_literal(ts: TokenStream) -> Option<TokenStream> {
    let mut v: Vec<TokenTree> = ts.into_iter().collect();
    let mut last = v.len().checked_sub(1)?;
    if matches!(&v[last], TokenTree::Punct(p) if p.as_char() == ',') {
        last = last.checked_sub(1)?;
    }
    let TokenTree::Literal(l) = v[last].clone() else { return None };
    if last == 0 || !matches!(&v[last - 1], TokenTree::Punct(p) if p.as_char() == '=') {
        return None;
    }
    let mut g = proc_macro2::Group::new(proc_macro2::Delimiter::None, std::iter::once(TokenTree::Literal(l.clone())).collect());
    g.set_span(l.span());
    v[last] = TokenTree::Group(g);
    Some(v.into_iter().collect())
}

fn splitting_case(rng: &mut Rng, c: &mut Collector) {
    let depth = rng.below(5);
    let items = gen_list(rng, depth);
    let text = render(&items, rng);
    let Ok(ts) = syn::parse_str::<TokenStream>(&text) else {
        c.discarded += 1;
        return;
    };
    // now and then the value of the last item arrives as a macro fragment: the literal inside an
    // invisible group (its span kept); nothing about the list changes by that
    let ts = if rng.chance(1, 5) {
        match group_last_literal(ts.clone()) {
            Some(g) => {
                c.count("split.last-value-in-invisible-group");
                g
            }
            None => ts,
        }
    } else {
        ts
    };
    c.eval();
    let res = match catch(|| NestedMeta::parse_meta_list(ts.clone())) {
        Caught::Ok(r) => r,
        Caught::Panic { msg, loc } => {
            c.violation(format!("C15:split:panic:{}", vfcommon::short_loc(&loc)), format!("parse_meta_list panicked on `{text}`: {msg}"), json!({"input": text}));
            return;
        }
    };
    let mut fail = |c: &mut Collector, class: &str, what: String, input: &str| {
        c.violation(format!("C15:split:{class}"), what.clone(), json!({"input": input, "failure": what}));
    };
    match &res {
        Err(e) => fail(c, "valid-rejected", format!("valid list `{text}` rejected: {e}"), &text),
        Ok(parsed) => {
            if parsed.len() != items.len() {
                fail(c, "item-count", format!("`{text}`: {} items, built from {}", parsed.len(), items.len()), &text);
            } else {
                for (i, (p, g)) in parsed.iter().zip(items.iter()).enumerate() {
                    if kind_of(p) != g.kind {
                        fail(c, "classification", format!("`{text}`: item {i} `{}` classified {} instead of {}", g.text, kind_of(p), g.kind), &text);
                    } else if show(p) != norm(&g.text) {
                        fail(c, "item-tokens", format!("`{text}`: item {i} prints `{}`, written `{}`", show(p), norm(&g.text)), &text);
                    }
                }
                // print -> parse -> print is the identity
                let printed = quote!(#(#parsed),*);
                match NestedMeta::parse_meta_list(printed.clone()) {
                    Err(e) => fail(c, "reparse-rejected", format!("printing `{text}` gives `{printed}` which no longer parses: {e}"), &text),
                    Ok(again) => {
                        let p2 = quote!(#(#again),*);
                        if tok::canon(p2.clone()) != tok::canon(printed.clone()) || again.len() != parsed.len() {
                            fail(c, "print-parse-not-identity", format!("`{printed}` re-parses and prints as `{p2}`"), &text);
                        } else if !again.iter().zip(parsed.iter()).all(|(a, b)| same_item(a, b)) {
                            // the identity is one of lists, not only of their tokens: the same items, of the
                            // same kinds, holding the same values
                            let k = again.iter().zip(parsed.iter()).position(|(a, b)| !same_item(a, b)).unwrap_or(0);
                            fail(c, "print-parse-not-identity", format!("`{text}`: printed and parsed again, item {k} is {:?}, it was {:?}", again[k], parsed[k]).chars().take(600).collect(), &text);
                        }
                    }
                }
            }
            c.nontrivial(&(items.iter().map(|i| i.kind).collect::<Vec<_>>(), depth, text.ends_with(',')));
            c.count(&format!("split.valid.len{}", items.len().min(6)));
        }
    }
    if c.samples.len() < c.max_samples && c.evaluations % 3001 == 0 {
        c.sample(|| json!({"input": text, "items": items.iter().map(|i| i.kind).collect::<Vec<_>>(), "accepted": res.is_ok()}));
    }
    // single-token mutations of lists without loose commas, judged by the independent recogniser
    if items.iter().all(|i| !i.loose_comma) && !text.contains('|') && !text.contains("::<") {
        let (mts, mkind) = mutate(&ts, rng);
        let mtext = mts.to_string();
        // re-lex the mutant so that spacing is what a user could have typed
        let Ok(mts) = syn::parse_str::<TokenStream>(&mtext) else {
            c.discarded += 1;
            return;
        };
        if mtext.contains('|') || mtext.contains(":: <") {
            return;
        }
        c.eval();
        let want = recognise(&mts);
        if matches!(&want, Err(w) if w.starts_with("KEYWORD")) {
            // keyword-named items are outside the generated space (see assumptions)
            c.discarded += 1;
            return;
        }
        let got = match catch(|| NestedMeta::parse_meta_list(mts.clone())) {
            Caught::Ok(r) => r,
            Caught::Panic { msg, loc } => {
                c.violation(format!("C15:split:panic:{}", vfcommon::short_loc(&loc)), format!("parse_meta_list panicked on `{mtext}`: {msg}"), json!({"input": mtext}));
                return;
            }
        };
        match (&want, &got) {
            (Ok(k), Ok(p)) => {
                let gk: Vec<_> = p.iter().map(kind_of).collect();
                if *k != gk {
                    fail(c, "mutant-classification", format!("`{mtext}` ({mkind}): classified {gk:?}, the recogniser says {k:?}"), &mtext);
                }
            }
            (Err(why), Ok(p)) => fail(c, "malformed-accepted", format!("`{mtext}` ({mkind}) accepted as {} items; recogniser: {why}", p.len()), &mtext),
            (Ok(k), Err(e)) => fail(c, "mutant-valid-rejected", format!("`{mtext}` ({mkind}) is a well-formed list of {} items but was rejected: {e}", k.len()), &mtext),
            (Err(_), Err(_)) => {}
        }
        c.count(&format!("split.mutant.{mkind}.{}", if got.is_ok() { "accepted" } else { "rejected" }));
        c.nontrivial(&(mkind, got.is_ok(), items.len()));
    }
}

/// fixed lexical edge cases named in the property text
fn edge_cases(c: &mut Collector) {
    let cases: [(&str, Option<&[&str]>); 13] = [
        ("::crate::x, ::self::y = 1, ::super::z(a)", Some(&["path", "nv", "list"])),
        ("", Some(&[])),
        ("true", Some(&["lit"])),
        ("true, false", Some(&["lit", "lit"])),
        ("::a::b", Some(&["path"])),
        ("::a = 1", Some(&["nv"])),
        ("crate::x, self::y(z), super::w = 2", Some(&["path", "list", "nv"])),
        ("r#type = 1", Some(&["nv"])),
        ("-5, -1.5", Some(&["lit", "lit"])),
        ("a,", Some(&["path"])),
        (",", None),
        ("a,,", None),
        ("a b", None),
    ];
    for (text, want) in cases {
        c.eval();
        let ts: TokenStream = syn::parse_str(text).unwrap();
        let got = NestedMeta::parse_meta_list(ts);
        let gk = got.as_ref().ok().map(|p| p.iter().map(kind_of).collect::<Vec<_>>());
        let ok = match (want, &gk) {
            (Some(w), Some(g)) => w.to_vec() == *g,
            (None, None) => true,
            _ => false,
        };
        if !ok {
            c.violation("C15:split:edge-case", format!("`{text}`: parsed as {gk:?}, expected {want:?}"), json!({"input": text}));
        }
        c.nontrivial(&("edge", text));
    }
}

pub fn run(args: &Args) -> i32 {
    let started = Instant::now();
    if let Some(p) = &args.replay {
        let v: serde_json::Value = serde_json::from_str(&std::fs::read_to_string(p).unwrap_or_default()).unwrap_or_default();
        let mut c = Collector::new();
        if v["signature"].as_str().unwrap_or("").contains(":routing:") {
            run_routing(&mut c);
        } else {
            let text = v["witness"]["input"].as_str().unwrap_or_else(|| vfcommon::die("replay has no input")).to_string();
            let ts: TokenStream = syn::parse_str(&text).unwrap_or_default();
            let want = recognise(&ts);
            let got = NestedMeta::parse_meta_list(ts);
            println!("recogniser: {:?}; parse_meta_list: {:?}", want, got.as_ref().map(|p| p.iter().map(kind_of).collect::<Vec<_>>()).map_err(|e| e.to_string()));
            if want.is_ok() != got.is_ok() {
                c.violation("C15:split:replay", format!("`{text}`: recogniser {:?}, parse_meta_list ok={}", want, got.is_ok()), json!({"input": text}));
            }
            c.nontrivial(&0u8);
            c.nontrivial(&1u8);
        }
        return conclude(args, started, c, outcome(0));
    }
    let total = args.budget(150_000, 10_000_000);
    let mut c = fan_out(args, 15, total, |w, rng, share, c| {
        if w == 0 {
            run_routing(c);
            edge_cases(c);
        }
        for i in 0..share {
            if i % 1024 == 0 {
                proc_macro2::extra::invalidate_current_thread_spans();
            }
            splitting_case(rng, c);
        }
    });
    c.max_samples = 8;
    conclude(args, started, c, outcome(5000))
}

fn outcome(min: u64) -> Outcome {
    let mut extra = serde_json::Map::new();
    extra.insert("exhaustive_subspace".into(), json!("routing: all 128 hook subsets x every fixed item form (word, list, name-value with each literal kind and non-literal expressions, values in 1-2 invisible groups, nested literal / nested meta positions) x hook returning Ok / unspanned Err / pre-spanned Err"));
    Outcome {
        level: "exploration",
        rule: "(b) routing: exhaustive table of probe implementers (one per subset of {word,list,bool,string,char,value,expr}) against a routing model; exactly one overridden hook with the right argument, or none and the documented default error kind; hook errors come back spanned inside the item or with their own span untouched. (a) splitting: random nested lists (depth<=4, every literal kind, negative numbers, raw idents, global and keyword-leading paths, expressions with closures / turbofish / ranges / blocks) built item by item so the expected split is known by construction; print->parse->print identity; single-token mutations judged by an independent token-tree recogniser. Distinct = (form, mask, mode) for routing; (item kind sequence, depth, trailing comma) and (mutation kind, verdict, length) for splitting.".into(),
        assumptions: vec![
            "expression validity inside a name-value item is delegated to syn::parse2::<Expr> (darling delegates it to syn as well)".into(),
            "keyword names other than crate/self/super (e.g. `true = 1`, `type`) are not generated".into(),
        ],
        min_nontrivial: min,
        exhaustive: Some(false),
        extra,
    }
}
