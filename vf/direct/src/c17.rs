//! C17 (API half): `unknown_field_with_alts` and `add_sibling_alts_for_unknown_field` against
//! an independent best-match computation (strsim::jaro_winkler is third-party, not under test).

use darling::Error;
use serde_json::json;
use std::time::Instant;
use vfcommon::{conclude, fan_out, Args, Collector, Outcome, Rng};

const BASES: [&str; 12] = ["alpha", "beta", "lorem", "ipsum", "dolor", "my_field", "another_one", "volume", "level", "rename_all", "skip", "x1"];

fn near(rng: &mut Rng, base: &str) -> String {
    let mut cs: Vec<char> = base.chars().collect();
    for _ in 0..rng.weighted(&[2, 5, 3, 1]) {
        if cs.is_empty() {
            cs.push('q');
            continue;
        }
        let p = rng.below(cs.len());
        match rng.below(4) {
            0 => {
                cs.remove(p);
            }
            1 => cs.insert(p, *rng.pick(&['a', 'e', 'x', '_', 'l'])),
            2 => cs[p] = *rng.pick(&['a', 'o', 'z', 'm']),
            _ => {
                if p + 1 < cs.len() {
                    cs.swap(p, p + 1)
                }
            }
        }
    }
    let s: String = cs.into_iter().collect();
    if s.is_empty() {
        "q".into()
    } else {
        s
    }
}

fn suggestion(display: &str) -> Option<String> {
    display.find("Did you mean `").map(|i| {
        let rest = &display[i + 14..];
        rest[..rest.find('`').unwrap_or(rest.len())].to_string()
    })
}

fn best(name: &str, alts: &[String]) -> (f64, Vec<String>) {
    let mut top = 0.0f64;
    for a in alts {
        top = top.max(strsim::jaro_winkler(name, a));
    }
    (top, alts.iter().filter(|a| (strsim::jaro_winkler(name, a) - top).abs() < 1e-12).cloned().collect())
}

fn check(c: &mut Collector, what: &str, name: &str, alts: &[String], got: Option<String>) {
    let (top, winners) = best(name, alts);
    let want_some = top > 0.8 && !alts.is_empty();
    let ok = match &got {
        Some(y) => want_some && winners.contains(y),
        None => !want_some,
    };
    if !ok {
        let class = match (&got, want_some) {
            (Some(_), false) => "suggestion-below-threshold",
            (None, true) => "suggestion-missing",
            _ => "not-best-match",
        };
        c.violation(
            format!("C17:api:{what}:{class}"),
            format!("{what}: unknown `{name}` with candidates {alts:?} suggests {got:?}; best score {top:.4} by {winners:?}"),
            json!({"name": name, "candidates": alts, "suggested": got, "best_score": top, "best": winners}),
        );
    }
}

fn case(rng: &mut Rng, c: &mut Collector) {
    let base = *rng.pick(&BASES);
    let name = near(rng, base);
    let mk = |rng: &mut Rng| -> Vec<String> {
        let n = rng.below(5);
        (0..n).map(|_| if rng.chance(1, 3) { near(rng, base) } else { (*rng.pick(&BASES)).to_string() }).collect()
    };
    let a1 = mk(rng);
    let a2 = mk(rng);
    c.eval();
    // 1. construction with alternates
    let e1 = Error::unknown_field_with_alts(&name, &a1);
    check(c, "unknown_field_with_alts", &name, &a1, suggestion(&e1.to_string()));
    // 2. siblings added at the origin: the better of the two survives
    let e2 = e1.clone().add_sibling_alts_for_unknown_field(&a2);
    let both: Vec<String> = a1.iter().chain(a2.iter()).cloned().collect();
    let s1 = suggestion(&e1.to_string());
    let s2 = suggestion(&e2.to_string());
    check(c, "add_sibling_alts", &name, &both, s2.clone());
    if let (Some(x), Some(y)) = (&s1, &s2) {
        if strsim::jaro_winkler(&name, y) + 1e-12 < strsim::jaro_winkler(&name, x) {
            c.violation("C17:api:better-suggestion-replaced", format!("`{name}`: suggestion `{x}` was replaced by the worse `{y}`"), json!({"name": name, "first": a1, "added": a2}));
        }
    }
    // 2b. a chain of flatten levels: siblings are added three and four times over; after every step the
    // suggestion is the best of everything offered so far (an earlier, better one is never displaced)
    {
        let mut e = e2.clone();
        let mut all = both.clone();
        let mut prev = s2.clone();
        for step in 0..2 {
            let more = mk(rng);
            e = e.add_sibling_alts_for_unknown_field(&more);
            all.extend(more.iter().cloned());
            let now = suggestion(&e.to_string());
            check(c, if step == 0 { "add_sibling_alts x2" } else { "add_sibling_alts x3" }, &name, &all, now.clone());
            if let (Some(x), Some(y)) = (&prev, &now) {
                if strsim::jaro_winkler(&name, y) + 1e-12 < strsim::jaro_winkler(&name, x) {
                    c.violation("C17:api:better-suggestion-replaced", format!("`{name}`: suggestion `{x}` was replaced by the worse `{y}` at the {}th addition", step + 2), json!({"name": name, "offered": all}));
                }
            }
            prev = now;
        }
    }
    // 3. after a location was added the error has left its origin: no change
    let located = Error::unknown_field_with_alts(&name, &a1).at("somewhere");
    let before = located.to_string();
    let after = located.add_sibling_alts_for_unknown_field(&a2).to_string();
    if before != after {
        c.violation("C17:api:alts-added-after-at", format!("`{before}` became `{after}` although the error already carried a location"), json!({"name": name, "first": a1, "added": a2}));
    }
    // 4. bundles: children at the origin get the siblings, located children do not, other kinds are untouched
    let bundle = Error::multiple(vec![Error::unknown_field(&name), Error::unknown_field_with_alts(&name, &a1).at("inner"), Error::missing_field(&name), Error::duplicate_field(&name)]);
    let out: Vec<String> = bundle.add_sibling_alts_for_unknown_field(&a2).into_iter().map(|e| e.to_string()).collect();
    check(c, "add_sibling_alts(bundle child)", &name, &a2, suggestion(&out[0]));
    if out[1] != Error::unknown_field_with_alts(&name, &a1).at("inner").to_string() {
        c.violation("C17:api:alts-added-after-at", format!("located child changed to `{}`", out[1]), json!({"name": name, "first": a1, "added": a2}));
    }
    if suggestion(&out[2]).is_some() || suggestion(&out[3]).is_some() {
        c.violation("C17:api:suggestion-on-other-kind", format!("non unknown-field errors got suggestions: {:?}", &out[2..]), json!({"name": name, "added": a2}));
    }
    // 5. no alternates, no suggestion
    if suggestion(&Error::unknown_field(&name).to_string()).is_some() {
        c.violation("C17:api:suggestion-without-candidates", format!("unknown_field(`{name}`) carries a suggestion"), json!({"name": name}));
    }
    let (top, _) = best(&name, &both);
    c.nontrivial(&(name.len(), a1.len(), a2.len(), (top * 20.0) as u32, s2.is_some()));
    c.count(if s2.is_some() { "with_suggestion" } else { "without_suggestion" });
    if (top - 0.8).abs() < 0.03 {
        c.count("near_threshold");
    }
    if c.samples.len() < c.max_samples && c.evaluations % 5003 == 0 {
        c.sample(|| json!({"name": name, "first": a1, "added": a2, "display": e2.to_string(), "best_score": top}));
    }
}

pub fn run(args: &Args) -> i32 {
    let started = Instant::now();
    let total = args.budget(200_000, 10_000_000);
    let c = fan_out(args, 17, total, |_, rng, share, c| {
        for _ in 0..share {
            case(rng, c);
        }
    });
    conclude(
        args,
        started,
        c,
        Outcome {
            level: "exploration",
            rule: "random unknown names at edit distance 0..3 of 12 base names with two random candidate lists (near misses and unrelated names): unknown_field_with_alts, add_sibling_alts_for_unknown_field at the origin / after at() / on bundles with mixed children, compared with an independent argmax over strsim::jaro_winkler and the 0.8 threshold (ties accept any maximal candidate). Distinct = (name length, list sizes, best score bucket, suggestion present).".into(),
            assumptions: vec!["strsim::jaro_winkler is the similarity metric (third-party)".into()],
            min_nontrivial: 300,
            exhaustive: None,
            extra: Default::default(),
        },
    )
}
