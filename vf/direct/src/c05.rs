//! C05: the error accumulator against a sequential model, over random operation histories.
//! Histories whose last step is "scope exit while already unwinding" run in a child process,
//! because the failure mode there is a double panic, i.e. a process abort.

use darling::error::Accumulator;
use darling::Error;
use serde_json::{json, Value};
use std::io::Write;
use std::time::Instant;
use vfcommon::{catch, conclude, fan_out, Args, Caught, Collector, Outcome, Rng};

#[derive(Clone, Debug)]
enum ErrSpec {
    One(u32, u8),
    Many(Vec<(u32, u8)>),
}

impl ErrSpec {
    fn uids(&self) -> Vec<u32> {
        match self {
            ErrSpec::One(u, _) => vec![*u],
            ErrSpec::Many(v) => v.iter().map(|x| x.0).collect(),
        }
    }
    fn build(&self) -> Error {
        fn leaf(u: u32, k: u8) -> Error {
            // kinds 6..12 are the same errors carrying a span of their own (their name says so)
            let spanned = k >= 6;
            let name = format!("E{u}E{}", if spanned { "S" } else { "" });
            if spanned {
                return leaf_named(&name, u, k - 6).with_span(&proc_macro2::Span::call_site());
            }
            leaf_named(&name, u, k)
        }
        fn leaf_named(name: &str, u: u32, k: u8) -> Error {
            match k % 6 {
                0 => Error::custom(format!("custom {name}")),
                1 => Error::unknown_field(&name),
                2 => Error::missing_field(&name).at("somewhere"),
                3 => Error::duplicate_field(&name),
                4 => Error::unknown_value(&name),
                _ => Error::unexpected_type(&name).at(format!("p{u}")),
            }
        }
        match self {
            ErrSpec::One(u, k) => leaf(*u, *k),
            ErrSpec::Many(v) => Error::multiple(v.iter().map(|(u, k)| leaf(*u, *k)).collect()),
        }
    }
}

#[derive(Clone, Debug)]
enum Op {
    Push(ErrSpec),
    HandleOk(u32),
    HandleErr(ErrSpec),
    HandleInOk(u32),
    HandleInErr(ErrSpec),
    Extend(Vec<ErrSpec>),
    Checkpoint,
}

#[derive(Clone, Debug, PartialEq)]
enum Term {
    Finish,
    FinishWith(u32),
    IntoInner,
    Drop,
    Unwind,
}

#[derive(Clone, Debug)]
struct History {
    ops: Vec<Op>,
    term: Term,
}

/// the running uid and the error generated last
type GenState = (u32, Option<ErrSpec>);

fn gen_err(rng: &mut Rng, st: &mut GenState) -> ErrSpec {
    // the same error recorded again (same kind, same text, same span or none): recorded twice, it is
    // reported twice
    if let (Some(prev), true) = (&st.1, rng.chance(1, 6)) {
        return prev.clone();
    }
    let uid = &mut st.0;
    let mut next = |rng: &mut Rng| {
        *uid += 1;
        (*uid, if rng.chance(1, 3) { 6 + rng.below(6) as u8 } else { rng.below(6) as u8 })
    };
    let e = if rng.chance(1, 4) {
        let n = rng.range(2, 4);
        ErrSpec::Many((0..n).map(|_| next(rng)).collect())
    } else {
        let (u, k) = next(rng);
        ErrSpec::One(u, k)
    };
    st.1 = Some(e.clone());
    e
}

fn gen_history(rng: &mut Rng, unwind: bool) -> History {
    let mut uid: GenState = (0, None);
    // a third of the histories record nothing, so that the Ok side is well covered
    let clean = rng.chance(1, 3);
    let len = if rng.chance(1, 8) { 0 } else { rng.range(1, 40) };
    let mut ops = vec![];
    for _ in 0..len {
        let w: [u32; 7] = if clean { [0, 6, 0, 3, 0, 0, 2] } else { [4, 4, 4, 2, 2, 2, 1] };
        ops.push(match rng.weighted(&w) {
            0 => Op::Push(gen_err(rng, &mut uid)),
            1 => Op::HandleOk(rng.below(1000) as u32),
            2 => Op::HandleErr(gen_err(rng, &mut uid)),
            3 => Op::HandleInOk(rng.below(1000) as u32),
            4 => Op::HandleInErr(gen_err(rng, &mut uid)),
            5 => {
                let k = rng.below(5);
                Op::Extend((0..k).map(|_| gen_err(rng, &mut uid)).collect())
            }
            _ => Op::Checkpoint,
        });
    }
    let term = if unwind {
        Term::Unwind
    } else {
        match rng.below(4) {
            0 => Term::Finish,
            1 => Term::FinishWith(rng.below(100000) as u32),
            2 => Term::IntoInner,
            _ => Term::Drop,
        }
    };
    History { ops, term }
}

/// How the returned error bundles what was recorded: one child per recorded error (shown for two
/// and more; a single recorded error comes back as itself), each with the leaves it holds.
fn kids(e: &Error, recorded: usize) -> String {
    if recorded < 2 {
        return String::new();
    }
    format!(" kids={:?}", e.clone().into_iter().map(|c| leaf_uids(&c)).collect::<Vec<_>>())
}
fn kids_expected(entries: &[Vec<u32>]) -> String {
    if entries.len() < 2 {
        return String::new();
    }
    format!(" kids={:?}", entries)
}

fn leaf_uids(e: &Error) -> Vec<u32> {
    e.clone()
        .flatten()
        .into_iter()
        .map(|l| {
            let s = l.to_string();
            // messages embed `E<digits>E`
            let b = s.as_bytes();
            let mut i = 0;
            while i < b.len() {
                if b[i] == b'E' {
                    let mut j = i + 1;
                    while j < b.len() && b[j].is_ascii_digit() {
                        j += 1;
                    }
                    if j > i + 1 && j < b.len() && b[j] == b'E' {
                        let uid: u32 = s[i + 1..j].parse().unwrap_or(0);
                        // an error keeps the span it was recorded with, and gains none
                        let said = b.get(j + 1) == Some(&b'S');
                        return if said == l.has_span() { uid } else { uid + 1_000_000 };
                    }
                }
                i += 1;
            }
            0
        })
        .collect()
}

const SENTINEL: &str = "vf-sentinel-unwind";

/// Execute on the real accumulator; the log is what a client could observe.
fn exec(h: &History) -> (Vec<String>, Option<(String, String)>) {
    let mut log: Vec<String> = vec![];
    let res = catch(|| {
        let mut acc: Accumulator = Error::accumulator();
        // how many errors the client has handed over since the last fresh accumulator (its own count)
        let mut sent = 0usize;
        for op in &h.ops {
            sent += match op {
                Op::Push(_) | Op::HandleErr(_) | Op::HandleInErr(_) => 1,
                Op::Extend(es) => es.len(),
                _ => 0,
            };
            match op {
                Op::Push(e) => {
                    acc.push(e.build());
                    log.push("push".into());
                }
                Op::HandleOk(v) => {
                    let r: Option<u32> = acc.handle(Ok(*v));
                    log.push(format!("handle->{r:?}"));
                }
                Op::HandleErr(e) => {
                    let r: Option<u32> = acc.handle(Err(e.build()));
                    log.push(format!("handle->{r:?}"));
                }
                Op::HandleInOk(v) => {
                    let r: Option<u32> = acc.handle_in(|| Ok(*v));
                    log.push(format!("handle_in->{r:?}"));
                }
                Op::HandleInErr(e) => {
                    let r: Option<u32> = acc.handle_in(|| Err(e.build()));
                    log.push(format!("handle_in->{r:?}"));
                }
                Op::Extend(es) => {
                    // the same errors through iterators of different kinds: an exact size hint, a lower
                    // bound of zero (`filter`), no hint at all (`from_fn`), and - for two and more - a bundle,
                    // which is itself an iterator over its children
                    match (es.len() + es.first().map(|e| e.uids().len()).unwrap_or(0)) % 4 {
                        0 => acc.extend(es.iter().map(|e| e.build())),
                        1 => acc.extend(es.iter().map(|e| e.build()).filter(|_| true)),
                        2 => {
                            let mut it = es.iter();
                            acc.extend(std::iter::from_fn(move || it.next().map(|e| e.build())));
                        }
                        _ if es.len() >= 2 => acc.extend(darling::Error::multiple(es.iter().map(|e| e.build()).collect())),
                        _ => acc.extend(es.iter().map(|e| e.build()).collect::<Vec<_>>()),
                    }
                    log.push(format!("extend({})", es.len()));
                }
                Op::Checkpoint => match acc.checkpoint() {
                    Ok(a) => {
                        acc = a;
                        log.push("checkpoint->Ok(fresh)".into());
                    }
                    Err(e) => {
                        log.push(format!("checkpoint->Err{:?} len={}{}", leaf_uids(&e), e.len(), kids(&e, sent)));
                        return;
                    }
                },
            }
        }
        match &h.term {
            Term::Finish => match acc.finish() {
                Ok(()) => log.push("finish->Ok".into()),
                Err(e) => log.push(format!("finish->Err{:?} len={}{}", leaf_uids(&e), e.len(), kids(&e, sent))),
            },
            Term::FinishWith(v) => match acc.finish_with(*v) {
                Ok(x) => log.push(format!("finish_with->Ok({x})")),
                Err(e) => log.push(format!("finish_with->Err{:?} len={}", leaf_uids(&e), e.len())),
            },
            Term::IntoInner => {
                let v = acc.into_inner();
                let vv: Vec<Vec<u32>> = v.iter().map(leaf_uids).collect();
                log.push(format!("into_inner->{vv:?}"));
            }
            Term::Drop => {
                log.push("drop".into());
                drop(acc);
                log.push("drop->returned".into());
            }
            Term::Unwind => {
                log.push("unwind".into());
                let _keep = acc;
                panic!("{}", SENTINEL);
            }
        }
    });
    match res {
        Caught::Ok(()) => (log, None),
        Caught::Panic { msg, loc } => (log, Some((msg, loc))),
    }
}

enum Expect {
    NoPanic,
    /// panic from the drop bomb; (entries, leaves) recorded at that point
    Bomb(usize, usize),
    Sentinel,
}

fn model(h: &History) -> (Vec<String>, Expect) {
    let mut entries: Vec<Vec<u32>> = vec![];
    let mut log = vec![];
    let flat = |e: &Vec<Vec<u32>>| e.iter().flatten().copied().collect::<Vec<u32>>();
    for op in &h.ops {
        match op {
            Op::Push(e) => {
                entries.push(e.uids());
                log.push("push".into());
            }
            Op::HandleOk(v) => log.push(format!("handle->Some({v})")),
            Op::HandleErr(e) => {
                entries.push(e.uids());
                log.push("handle->None".into());
            }
            Op::HandleInOk(v) => log.push(format!("handle_in->Some({v})")),
            Op::HandleInErr(e) => {
                entries.push(e.uids());
                log.push("handle_in->None".into());
            }
            Op::Extend(es) => {
                for e in es {
                    entries.push(e.uids());
                }
                log.push(format!("extend({})", es.len()));
            }
            Op::Checkpoint => {
                if entries.is_empty() {
                    log.push("checkpoint->Ok(fresh)".into());
                } else {
                    let f = flat(&entries);
                    log.push(format!("checkpoint->Err{:?} len={}{}", f, f.len(), kids_expected(&entries)));
                    return (log, Expect::NoPanic);
                }
            }
        }
    }
    let f = flat(&entries);
    match &h.term {
        Term::Finish => {
            if f.is_empty() {
                log.push("finish->Ok".into())
            } else {
                log.push(format!("finish->Err{:?} len={}{}", f, f.len(), kids_expected(&entries)))
            }
            (log, Expect::NoPanic)
        }
        Term::FinishWith(v) => {
            if f.is_empty() {
                log.push(format!("finish_with->Ok({v})"))
            } else {
                log.push(format!("finish_with->Err{:?} len={}", f, f.len()))
            }
            (log, Expect::NoPanic)
        }
        Term::IntoInner => {
            log.push(format!("into_inner->{entries:?}"));
            (log, Expect::NoPanic)
        }
        Term::Drop => {
            log.push("drop".into());
            (log, Expect::Bomb(entries.len(), f.len()))
        }
        Term::Unwind => {
            log.push("unwind".into());
            (log, Expect::Sentinel)
        }
    }
}

fn numbers_in(s: &str) -> Vec<usize> {
    let mut out = vec![];
    let mut cur = String::new();
    for ch in s.chars().chain(std::iter::once(' ')) {
        if ch.is_ascii_digit() {
            cur.push(ch)
        } else if !cur.is_empty() {
            if let Ok(n) = cur.parse() {
                out.push(n)
            }
            cur.clear();
        }
    }
    out
}

fn judge(case_seed: u64, h: &History, c: &mut Collector) {
    let (want, expect) = model(h);
    let (got, panic) = exec(h);
    c.eval();
    let mut fail = |class: &str, what: String| {
        c.violation(
            format!("C05:accumulator:{class}"),
            what.clone(),
            json!({"case_seed": case_seed, "unwind": h.term == Term::Unwind, "history": format!("{:?}", h), "expected_log": want, "observed_log": got, "panic": panic.as_ref().map(|p| p.0.clone()), "failure": what}),
        );
    };
    if got != want {
        let i = got.iter().zip(want.iter()).position(|(a, b)| a != b).unwrap_or(got.len().min(want.len()));
        let class = match want.get(i).map(|s| s.as_str()).unwrap_or("") {
            s if s.starts_with("handle") => "handle-return",
            s if s.starts_with("checkpoint") => "checkpoint",
            s if s.starts_with("finish") => "finish",
            s if s.starts_with("into_inner") => "into-inner",
            _ => "log",
        };
        fail(class, format!("step {i}: observed {:?}, the model says {:?}", got.get(i), want.get(i)));
    }
    match (expect, &panic) {
        (Expect::NoPanic, None) => {}
        (Expect::NoPanic, Some((m, loc))) => fail("unexpected-panic", format!("panicked: {m} at {loc}")),
        (Expect::Bomb(entries, leaves), Some((m, _))) => {
            if m == SENTINEL {
                fail("drop", "wrong panic".into());
            } else if entries > 0 {
                let ns = numbers_in(m);
                // "errors" throughout the statement are the *recorded* errors (a recorded bundle is one of
                // them), so that is the number the message has to state
                let _ = leaves;
                if !ns.contains(&entries) {
                    fail("drop-count", format!("drop panic message {m:?} does not state that {entries} errors were lost"));
                }
            }
        }
        (Expect::Bomb(entries, _), None) => fail(
            if entries == 0 { "drop-silent-empty" } else { "drop-silent" },
            format!("accumulator holding {entries} errors went out of scope unfinished without panicking"),
        ),
        (Expect::Sentinel, Some((m, _))) => {
            if m != SENTINEL {
                fail("unwind-panic-replaced", format!("unwinding with an armed accumulator surfaced {m:?} instead of the original panic"));
            }
        }
        (Expect::Sentinel, None) => fail("unwind", "sentinel panic vanished".into()),
    }
    // distinctness: the observable log with numbers blanked
    let shape: String = want
        .iter()
        .map(|s| s.chars().filter(|ch| !ch.is_ascii_digit()).collect::<String>())
        .collect::<Vec<_>>()
        .join(";");
    if !h.ops.is_empty() {
        c.nontrivial(&(shape, h.term == Term::Unwind));
    }
    c.count(&format!("term.{:?}", std::mem::discriminant(&h.term)).replace("Discriminant", ""));
    c.count(match &h.term {
        Term::Finish => "terminal.finish",
        Term::FinishWith(_) => "terminal.finish_with",
        Term::IntoInner => "terminal.into_inner",
        Term::Drop => "terminal.drop",
        Term::Unwind => "terminal.drop_during_unwind",
    });
    if want.iter().any(|s| s.starts_with("checkpoint->Ok")) {
        c.count("checkpoint.fresh");
    }
    if want.iter().any(|s| s.starts_with("checkpoint->Err")) {
        c.count("checkpoint.err");
    }
    if want.last().map(|s| s.contains("->Ok")).unwrap_or(false) {
        c.count("finished.ok");
    }
    if want.last().map(|s| s.contains("->Err")).unwrap_or(false) {
        c.count("finished.err");
    }
    c.sample(|| json!({"history": format!("{:?}", h), "observed_log": got, "panic": panic.as_ref().map(|p| p.0.clone())}));
}

fn run_case(case_seed: u64, unwind: bool, c: &mut Collector) {
    let mut rng = Rng::new(case_seed);
    let h = gen_history(&mut rng, unwind);
    judge(case_seed, &h, c);
}

/// Child mode: unwinding histories, progress on stdout so the parent can name the killer.
fn child(args: &Args) -> i32 {
    let n: u64 = args.extra.get("child").and_then(|s| s.parse().ok()).unwrap_or(0);
    let mut rng = Rng::for_stream(args.seed, 55, 0);
    let mut c = Collector::new();
    let out = std::io::stdout();
    for _ in 0..n {
        let cs = rng.next_u64();
        {
            let mut o = out.lock();
            let _ = writeln!(o, "H {cs}");
            let _ = o.flush();
        }
        run_case(cs, true, &mut c);
    }
    let mut o = out.lock();
    let _ = writeln!(
        o,
        "RESULT {}",
        json!({
            "evaluations": c.evaluations,
            "violations": c.violations.iter().map(|v| json!({"signature": v.signature, "what": v.what, "witness": v.witness})).collect::<Vec<_>>(),
            "distinct": c.distinct.iter().collect::<Vec<_>>(),
        })
    );
    let _ = writeln!(o, "DONE {n}");
    0
}

fn run_child(args: &Args, n: u64, single: Option<u64>, c: &mut Collector) {
    let exe = std::env::current_exe().expect("current_exe");
    let mut cmd = std::process::Command::new(exe);
    cmd.args(["--prop", "C05", "--seed", &args.seed.to_string(), "--child", &n.to_string(), "--tier", &args.tier]);
    if let Some(cs) = single {
        cmd.args(["--child-case", &cs.to_string()]);
    }
    let out = match cmd.output() {
        Ok(o) => o,
        Err(e) => vfcommon::die(&format!("cannot spawn child: {e}")),
    };
    let text = String::from_utf8_lossy(&out.stdout);
    let mut last = None;
    let mut done = false;
    for line in text.lines() {
        if let Some(r) = line.strip_prefix("H ") {
            last = r.trim().parse::<u64>().ok();
        } else if let Some(r) = line.strip_prefix("RESULT ") {
            if let Ok(v) = serde_json::from_str::<Value>(r) {
                c.evals(v["evaluations"].as_u64().unwrap_or(0));
                for d in v["distinct"].as_array().cloned().unwrap_or_default() {
                    if let Some(x) = d.as_u64() {
                        c.distinct.insert(x);
                    }
                }
                for viol in v["violations"].as_array().cloned().unwrap_or_default() {
                    c.violation(
                        viol["signature"].as_str().unwrap_or("C05:accumulator:child"),
                        viol["what"].as_str().unwrap_or(""),
                        viol["witness"].clone(),
                    );
                }
            }
        } else if line.starts_with("DONE ") {
            done = true;
        }
    }
    c.count_n("unwind_histories_in_child", n);
    if !done || !out.status.success() {
        let h = last.map(|cs| format!("{:?}", gen_history(&mut Rng::new(cs), true)));
        c.violation(
            "C05:accumulator:abort-during-unwind",
            format!("child process died ({:?}) while an accumulator went out of scope during unwinding", out.status),
            json!({"case_seed": last, "unwind": true, "history": h, "stderr_tail": String::from_utf8_lossy(&out.stderr).chars().rev().take(400).collect::<String>().chars().rev().collect::<String>()}),
        );
    }
}

pub fn run(args: &Args) -> i32 {
    if args.extra.contains_key("child") {
        if let Some(cs) = args.extra.get("child-case").and_then(|s| s.parse::<u64>().ok()) {
            let mut c = Collector::new();
            println!("H {cs}");
            run_case(cs, true, &mut c);
            println!("RESULT {}", json!({"evaluations": 1, "violations": c.violations.iter().map(|v| json!({"signature": v.signature, "what": v.what, "witness": v.witness})).collect::<Vec<_>>(), "distinct": []}));
            println!("DONE 1");
            return 0;
        }
        return child(args);
    }
    let started = Instant::now();
    if let Some(p) = &args.replay {
        let v: Value = serde_json::from_str(&std::fs::read_to_string(p).unwrap_or_default()).unwrap_or(Value::Null);
        let seed = v["witness"]["case_seed"].as_u64().unwrap_or_else(|| vfcommon::die("replay file has no case_seed"));
        let unwind = v["witness"]["unwind"].as_bool().unwrap_or(false);
        let mut c = Collector::new();
        if unwind {
            run_child(args, 1, Some(seed), &mut c);
        } else {
            run_case(seed, false, &mut c);
        }
        c.nontrivial(&1u8);
        c.nontrivial(&2u8);
        return conclude(args, started, c, outcome(0));
    }
    let total = args.budget(150_000, 8_000_000);
    let mut c = fan_out(args, 5, total, |_, rng, share, c| {
        for _ in 0..share {
            let cs = rng.next_u64();
            run_case(cs, false, c);
        }
    });
    let n_child = args.budget(5_000, 300_000);
    run_child(args, n_child, None, &mut c);
    conclude(args, started, c, outcome(300))
}

fn outcome(min: u64) -> Outcome {
    Outcome {
        level: "exploration",
        rule: "random histories (0..40 ops over push / handle(Ok) / handle(Err) / handle_in / extend(0..4) / checkpoint, errors single or bundled, a third of the histories error-free) ending in finish / finish_with / into_inner / drop / drop-during-unwind (child process); every return value, the scope-exit panic and its message are compared with a sequential model. Non-trivial = at least one op; distinct = distinct observable log with numbers blanked.".into(),
        assumptions: vec!["std::panic::catch_unwind observes every panic of the monitored scope".into()],
        min_nontrivial: min,
        exhaustive: None,
        extra: Default::default(),
    }
}
