//! C14: keyed collections. Model over the item list; value acceptance is taken differentially
//! from `V::from_meta` on the very same item, key conversion is re-implemented here.

use darling::ast::NestedMeta;
use darling::{Error, FromMeta};
use quote::ToTokens;
use serde_json::json;
use std::collections::{BTreeMap, HashMap};
use std::time::Instant;
use syn::Meta;
use vfcommon::{catch, conclude, fan_out, span_range, Args, Caught, Collector, Outcome, Rng};

type Entries = Vec<(String, String)>;

/// set when the module runs as a part of C03: only the span rule is judged (every leaf about an item
/// of the list, other than a bare literal's, carries a span inside that item)
static SPANS_ONLY: std::sync::atomic::AtomicBool = std::sync::atomic::AtomicBool::new(false);

trait Canon {
    fn canon(&self) -> String;
}
impl Canon for bool {
    fn canon(&self) -> String {
        self.to_string()
    }
}
/// a derived newtype whose container-level `and_then` refuses odd numbers with an error that has no span
/// of its own: whatever reads the value has to come back with the item's
#[derive(Debug, darling::FromMeta)]
#[darling(and_then = "NtEven::check")]
pub struct NtEven(u8);
impl NtEven {
    fn check(self) -> darling::Result<Self> {
        if self.0 % 2 == 1 {
            Err(darling::Error::custom("an odd number"))
        } else {
            Ok(self)
        }
    }
}
impl Canon for NtEven {
    fn canon(&self) -> String {
        format!("NtEven({})", self.0)
    }
}
impl Canon for darling::util::Flag {
    fn canon(&self) -> String {
        format!("Flag({})", self.is_present())
    }
}
impl Canon for u8 {
    fn canon(&self) -> String {
        self.to_string()
    }
}
impl Canon for String {
    fn canon(&self) -> String {
        format!("{:?}", self)
    }
}
impl Canon for syn::Expr {
    fn canon(&self) -> String {
        self.to_token_stream().to_string()
    }
}
impl Canon for HashMap<String, String> {
    fn canon(&self) -> String {
        let mut v: Vec<_> = self.iter().collect();
        v.sort();
        format!("{:?}", v)
    }
}
trait KeyCanon {
    fn kc(&self) -> String;
}
impl KeyCanon for String {
    fn kc(&self) -> String {
        self.clone()
    }
}
impl KeyCanon for syn::Ident {
    fn kc(&self) -> String {
        self.to_string()
    }
}
impl KeyCanon for syn::Path {
    fn kc(&self) -> String {
        self.to_token_stream().to_string()
    }
}

#[derive(Clone, Copy, PartialEq, Eq, Debug, Hash)]
enum KeyKind {
    Str,
    Ident,
    Path,
}

struct Inst {
    name: String,
    key: KeyKind,
    vname: &'static str,
    ordered: bool,
    conv: fn(&Meta) -> Result<Entries, Error>,
    value: fn(&Meta) -> Result<String, Error>,
}

macro_rules! inst {
    ($out:ident, $kk:expr, $kt:ty, $vn:literal, $vt:ty) => {
        $out.push(Inst {
            name: format!("HashMap<{},{}>", stringify!($kt), $vn),
            key: $kk,
            vname: $vn,
            ordered: false,
            conv: |m| {
                <HashMap<$kt, $vt>>::from_meta(m).map(|h| {
                    let mut v: Entries = h.iter().map(|(k, v)| (k.kc(), v.canon())).collect();
                    v.sort();
                    v
                })
            },
            value: |m| <$vt>::from_meta(m).map(|v| v.canon()),
        });
    };
    (btree $out:ident, $kk:expr, $kt:ty, $vn:literal, $vt:ty) => {
        $out.push(Inst {
            name: format!("BTreeMap<{},{}>", stringify!($kt), $vn),
            key: $kk,
            vname: $vn,
            ordered: true,
            conv: |m| {
                <BTreeMap<$kt, $vt>>::from_meta(m).map(|h| {
                    let mut v: Entries = h.iter().map(|(k, v)| (k.kc(), v.canon())).collect();
                    v.sort();
                    v
                })
            },
            value: |m| <$vt>::from_meta(m).map(|v| v.canon()),
        });
    };
}

macro_rules! all_values {
    ($out:ident, $kk:expr, $kt:ty) => {
        inst!($out, $kk, $kt, "bool", bool);
        inst!($out, $kk, $kt, "u8", u8);
        inst!($out, $kk, $kt, "String", String);
        inst!($out, $kk, $kt, "Expr", syn::Expr);
        inst!($out, $kk, $kt, "Map", HashMap<String, String>);
        inst!($out, $kk, $kt, "Flag", darling::util::Flag);
        inst!($out, $kk, $kt, "NtEven", NtEven);
    };
    (btree $out:ident, $kk:expr, $kt:ty) => {
        inst!(btree $out, $kk, $kt, "bool", bool);
        inst!(btree $out, $kk, $kt, "u8", u8);
        inst!(btree $out, $kk, $kt, "String", String);
        inst!(btree $out, $kk, $kt, "Expr", syn::Expr);
        inst!(btree $out, $kk, $kt, "Map", HashMap<String, String>);
        inst!(btree $out, $kk, $kt, "Flag", darling::util::Flag);
        inst!(btree $out, $kk, $kt, "NtEven", NtEven);
    };
}

fn instantiations() -> Vec<Inst> {
    let mut out = vec![];
    all_values!(out, KeyKind::Str, String);
    all_values!(out, KeyKind::Ident, syn::Ident);
    all_values!(out, KeyKind::Path, syn::Path);
    all_values!(btree out, KeyKind::Str, String);
    all_values!(btree out, KeyKind::Ident, syn::Ident);
    out
}

#[derive(Clone, Debug)]
struct Item {
    text: String,
    literal: bool,
    lo: usize,
    hi: usize,
}

struct Input {
    src: String,
    items: Vec<Item>,
}

fn gen_key(rng: &mut Rng, alphabet: &[&str]) -> String {
    let k = *rng.pick(alphabet);
    match rng.below(12) {
        0 => format!("::{k}"),
        1 => format!("{k}::tail"),
        2 => format!("::{k}::tail"),
        3 => format!("r#{k}"),
        _ => k.to_string(),
    }
}

fn gen_value(rng: &mut Rng) -> String {
    match rng.below(14) {
        0 => String::new(),
        1 => " = true".into(),
        2 => " = false".into(),
        3 => format!(" = {}", rng.below(256)),
        4 => format!(" = {}", 256 + rng.below(1000)),
        5 => format!(" = \"{}\"", rng.pick(&["s", "true", "7", "a + b", "300", "", "(("])),
        6 => " = a + b".into(),
        7 => " = foo::bar".into(),
        8 => "(x = \"1\", y = \"2\")".into(),
        9 => "(x = \"1\", x = \"2\")".into(),
        10 => "(x = \"1\", \"lit\", y = 3, y = \"4\")".into(),
        11 => "()".into(),
        12 => " = 'c'".into(),
        _ => " = 2.5".into(),
    }
}

fn gen_input(rng: &mut Rng) -> Input {
    let all = ["alpha", "beta", "gamma", "delta"];
    let nk = rng.range(1, 4);
    let alphabet = &all[..nk];
    let n = if rng.chance(1, 10) { 0 } else { rng.range(1, 12) };
    let lit_weight = if rng.chance(1, 2) { 0 } else { 2 };
    let mut src = String::from("m(");
    let mut items = vec![];
    for i in 0..n {
        if i > 0 {
            src.push_str(", ");
        }
        let (text, literal) = if rng.below(12) < lit_weight {
            ((*rng.pick(&["\"lit\"", "5", "true", "'c'", "1.5", "-3"])).to_string(), true)
        } else {
            (format!("{}{}", gen_key(rng, alphabet), gen_value(rng)), false)
        };
        let lo = src.len();
        src.push_str(&text);
        items.push(Item {
            text,
            literal,
            lo,
            hi: src.len(),
        });
    }
    if n > 0 && rng.chance(1, 6) {
        src.push(',');
    }
    src.push(')');
    Input { src, items }
}

fn key_of(kind: KeyKind, p: &syn::Path) -> Option<String> {
    match kind {
        KeyKind::Str => Some(p.segments.iter().map(|s| s.ident.to_string()).collect::<Vec<_>>().join("::")),
        KeyKind::Ident => {
            if p.segments.len() == 1 && p.leading_colon.is_none() && p.segments[0].arguments.is_empty() {
                Some(p.segments[0].ident.to_string())
            } else {
                None
            }
        }
        KeyKind::Path => Some(p.to_token_stream().to_string()),
    }
}

fn location_of(display: &str) -> Option<String> {
    display.rfind(" at ").map(|i| display[i + 4..].to_string())
}

struct Obs {
    ok: Option<Entries>,
    leaves: Vec<(String, Option<(usize, usize)>)>,
    len: usize,
}

fn observe(inst: &Inst, meta: &Meta) -> Result<Obs, (String, String)> {
    match catch(|| (inst.conv)(meta)) {
        Caught::Ok(Ok(e)) => Ok(Obs {
            ok: Some(e),
            leaves: vec![],
            len: 0,
        }),
        Caught::Ok(Err(e)) => {
            let len = e.len();
            let leaves = e
                .flatten()
                .into_iter()
                .map(|l| (l.to_string(), l.explicit_span().and_then(span_range)))
                .collect();
            Ok(Obs { ok: None, leaves, len })
        }
        Caught::Panic { msg, loc } => Err((msg, loc)),
    }
}

fn judge_input(insts: &[Inst], inp: &Input, c: &mut Collector) {
    let Ok(meta) = syn::parse_str::<Meta>(&inp.src) else {
        c.discarded += 1;
        return;
    };
    let Meta::List(list) = &meta else { return };
    let Ok(nested) = NestedMeta::parse_meta_list(list.tokens.clone()) else {
        c.discarded += 1;
        return;
    };
    if nested.len() != inp.items.len() {
        c.discarded += 1;
        return;
    }
    let mut results: HashMap<(KeyKind, &'static str), Vec<(bool, Result<Entries, Vec<String>>)>> = HashMap::new();
    for inst in insts {
        c.eval();
        // model
        let mut seen: Vec<String> = vec![];
        let mut want_entries: Entries = vec![];
        let mut per_item: Vec<usize> = vec![];
        let mut kinds = (0usize, 0usize, 0usize, 0usize); // literals, repeats, bad keys, bad values
        for (it, nm) in inp.items.iter().zip(nested.iter()) {
            match nm {
                NestedMeta::Lit(_) => {
                    kinds.0 += 1;
                    per_item.push(1);
                }
                NestedMeta::Meta(inner) => {
                    let mut n = 0;
                    let val = (inst.value)(inner);
                    let vlen = match &val {
                        Ok(_) => 0,
                        Err(e) => e.len(),
                    };
                    match key_of(inst.key, inner.path()) {
                        None => {
                            kinds.2 += 1;
                            n += 1 + vlen;
                            if vlen > 0 {
                                kinds.3 += 1
                            }
                        }
                        Some(k) => {
                            let dup = seen.contains(&k);
                            if dup {
                                kinds.1 += 1;
                                n += 1;
                            }
                            if vlen > 0 {
                                kinds.3 += 1;
                                n += vlen;
                            } else if !dup {
                                want_entries.push((k.clone(), val.unwrap()));
                            }
                            seen.push(k);
                        }
                    }
                    per_item.push(n);
                    let _ = it;
                }
            }
        }
        want_entries.sort();
        let want_err: usize = per_item.iter().sum();
        let obs = match observe(inst, &meta) {
            Ok(o) => o,
            Err((msg, loc)) => {
                c.violation(
                    format!("C14:{}:panic:{}", inst.name, vfcommon::short_loc(&loc)),
                    format!("{}::from_meta panicked: {msg}", inst.name),
                    json!({"input": inp.src, "map": inst.name, "panic": msg}),
                );
                continue;
            }
        };
        let spans_only = SPANS_ONLY.load(std::sync::atomic::Ordering::Relaxed);
        let mut fail = |class: &str, what: String| {
            if spans_only {
                return;
            }
            c.violation(
                format!("C14:{}:{class}", if inst.ordered { "BTreeMap" } else { "HashMap" }),
                what.clone(),
                json!({"input": inp.src, "map": inst.name, "expected_leaves_per_item": per_item, "expected_entries": want_entries, "observed_ok": obs.ok, "observed_leaves": obs.leaves, "failure": what}),
            );
        };
        match (&obs.ok, want_err) {
            (Some(e), 0) => {
                if e.len() != inp.items.len() {
                    fail("entry-count", format!("{} on `{}`: {} entries for {} items", inst.name, inp.src, e.len(), inp.items.len()));
                } else if *e != want_entries {
                    fail("entry-value", format!("{} on `{}`: entries {:?}, expected {:?}", inst.name, inp.src, e, want_entries));
                }
            }
            (Some(e), _) => fail(
                "accepted-faulty",
                format!("{} on `{}` succeeded with {} entries; the input has {} literal items, {} repeated keys, {} bad keys, {} bad values", inst.name, inp.src, e.len(), kinds.0, kinds.1, kinds.2, kinds.3),
            ),
            (None, 0) => fail("rejected-valid", format!("{} on `{}` failed: {:?}", inst.name, inp.src, obs.leaves)),
            (None, _) => {
                if obs.len != want_err || obs.leaves.len() != want_err {
                    let class = if obs.leaves.len() < want_err { "leaf-dropped" } else { "leaf-extra" };
                    fail(class, format!("{} on `{}`: {} leaves, expected {} (per item {:?})", inst.name, inp.src, obs.leaves.len(), want_err, per_item));
                } else {
                    // attribute every spanned leaf to the item containing it
                    let mut got = vec![0usize; inp.items.len()];
                    let mut unattributed = 0;
                    let mut unattributed_heads: Vec<String> = vec![];
                    for (d, sp) in &obs.leaves {
                        match sp.and_then(|(lo, hi)| inp.items.iter().position(|it| lo >= it.lo && hi <= it.hi)) {
                            Some(i) => {
                                got[i] += 1;
                                // a value error must be located under its key
                                let it = &inp.items[i];
                                if !it.literal && !d.starts_with("Duplicate field") && !d.starts_with("Key must be") {
                                    if let NestedMeta::Meta(inner) = &nested[i] {
                                        let keystr = inner.path().segments.iter().map(|s| s.ident.to_string()).collect::<Vec<_>>().join("::");
                                        match location_of(d) {
                                            Some(l) if l == keystr || l.starts_with(&format!("{keystr}/")) => {}
                                            _ => fail("value-error-unlocated", format!("{} on `{}`: leaf {:?} is not located under its key `{}`", inst.name, inp.src, d, keystr)),
                                        }
                                    }
                                }
                            }
                            None => {
                                unattributed += 1;
                                unattributed_heads.push(d.split_whitespace().take(3).collect::<Vec<_>>().join("_").replace('`', ""));
                            }
                        }
                    }
                    // leaves without a span of their own (or carrying only the whole list's span)
                    // may stand for any item that still lacks one
                    let over = got.iter().zip(per_item.iter()).any(|(g, w)| g > w);
                    let deficit: usize = got.iter().zip(per_item.iter()).map(|(g, w)| w.saturating_sub(*g)).sum();
                    if over || deficit != unattributed {
                        fail("leaf-misattributed", format!("{} on `{}`: leaves per item {:?} (+{} not attributable by span), expected {:?}", inst.name, inp.src, got, unattributed, per_item));
                    }
                    if unattributed > 0 {
                        c.count("leaves.unattributed_by_span");
                    }
                    for h in unattributed_heads {
                        c.count(&format!("unattributed.{h}"));
                        if spans_only {
                            c.violation(
                                format!("C03:map:span-missing:{h}"),
                                format!("{} on `{}`: a leaf `{h}..` about an item of the list has no span inside any item; leaves {:?}", inst.name, inp.src, obs.leaves),
                                json!({"input": inp.src, "map": inst.name, "observed_leaves": obs.leaves}),
                            );
                        }
                    }
                }
            }
        }
        results.entry((inst.key, inst.vname)).or_default().push((
            inst.ordered,
            match &obs.ok {
                Some(e) => Ok(e.clone()),
                None => Err(obs.leaves.iter().map(|l| l.0.clone()).collect()),
            },
        ));
        let outcome = if want_err == 0 { "ok" } else { "err" };
        c.nontrivial(&(inst.name.clone(), inp.items.len().min(5), kinds.0.min(2), kinds.1.min(3), kinds.2.min(2), kinds.3.min(3), outcome));
        c.count(&format!("outcome.{outcome}"));
        if kinds.1 > 0 {
            c.count("with.repeated_key");
        }
        if kinds.0 > 0 {
            c.count("with.literal_item");
        }
        if kinds.2 > 0 {
            c.count("with.bad_key");
        }
        if kinds.3 > 0 {
            c.count("with.bad_value");
        }
        if c.samples.len() < c.max_samples && c.evaluations % 4001 == 0 {
            c.sample(|| json!({"input": inp.src, "map": inst.name, "expected_leaves_per_item": per_item, "observed_ok": obs.ok, "observed_leaves": obs.leaves.iter().map(|l| l.0.clone()).collect::<Vec<_>>()}));
        }
    }
    // hash and ordered maps with equal key / value types behave identically
    for ((k, v), rs) in results {
        if rs.len() == 2 && rs[0].1 != rs[1].1 {
            c.violation(
                "C14:hash-vs-btree",
                format!("HashMap and BTreeMap<{k:?},{v}> disagree on `{}`", inp.src),
                json!({"input": inp.src, "hash": format!("{:?}", rs.iter().find(|r| !r.0).map(|r| &r.1)), "btree": format!("{:?}", rs.iter().find(|r| r.0).map(|r| &r.1))}),
            );
        }
    }
}

pub fn run(args: &Args) -> i32 {
    let started = Instant::now();
    if args.extra.get("part").map(|s| s.as_str()) == Some("map-spans") {
        SPANS_ONLY.store(true, std::sync::atomic::Ordering::Relaxed);
    }
    let insts = instantiations();
    if let Some(p) = &args.replay {
        let v: serde_json::Value = serde_json::from_str(&std::fs::read_to_string(p).unwrap_or_default()).unwrap_or_default();
        let src = v["witness"]["input"].as_str().unwrap_or_else(|| vfcommon::die("replay has no input")).to_string();
        let mut c = Collector::new();
        // recover item ranges by re-parsing with syn (top-level commas inside `m(...)`)
        let inner = &src[2..src.rfind(')').unwrap_or(src.len())];
        let mut items = vec![];
        let mut depth = 0i32;
        let mut start = 0usize;
        let mut in_str = false;
        let bytes = inner.as_bytes();
        for (i, &b) in bytes.iter().enumerate() {
            match b {
                b'"' => in_str = !in_str,
                b'(' | b'[' | b'{' if !in_str => depth += 1,
                b')' | b']' | b'}' if !in_str => depth -= 1,
                b',' if depth == 0 && !in_str => {
                    items.push((start, i));
                    start = i + 1;
                }
                _ => {}
            }
        }
        if start < inner.len() {
            items.push((start, inner.len()));
        }
        let items: Vec<Item> = items
            .into_iter()
            .filter(|(a, b)| !inner[*a..*b].trim().is_empty())
            .map(|(a, b)| {
                let t = &inner[a..b];
                let lead = t.len() - t.trim_start().len();
                let text = t.trim().to_string();
                let lo = 2 + a + lead;
                Item {
                    literal: syn::parse_str::<syn::Lit>(&text).is_ok(),
                    hi: lo + text.len(),
                    lo,
                    text,
                }
            })
            .collect();
        judge_input(&insts, &Input { src, items }, &mut c);
        c.nontrivial(&0u8);
        c.nontrivial(&1u8);
        return conclude(args, started, c, outcome(0));
    }
    let total = args.budget(40_000, 2_000_000);
    let c = fan_out(args, 14, total, |_, rng, share, c| {
        for i in 0..share {
            if i % 1024 == 0 {
                proc_macro2::extra::invalidate_current_thread_spans();
            }
            let inp = gen_input(rng);
            judge_input(&insts, &inp, c);
        }
    });
    conclude(args, started, c, outcome(300))
}

fn outcome(min: u64) -> Outcome {
    Outcome {
        level: "exploration",
        rule: if SPANS_ONLY.load(std::sync::atomic::Ordering::Relaxed) { "C03 part: the same item lists and 35 map instantiations as C14; judged here: every error leaf about an item of the list (repeated key, unconvertible key, unconvertible value) carries an explicit span inside that very item; so does the leaf for a bare literal item. Distinct = as in C14.".to_string() } else { "random item lists (0..12 items, key alphabets of 1..4 names with ::-leading / multi-segment / raw spellings, literal items, 14 value forms) parsed from source text and converted by all 35 map instantiations (HashMap x {String, Ident, Path} keys, BTreeMap x {String, Ident} keys, values bool / u8 / String / Expr / nested map / Flag / a derived newtype with `and_then`); success, entries, leaf count and per-item leaf attribution (by span) are compared with a model whose key conversion is re-implemented and whose value acceptance is V::from_meta on the same item; Hash/BTree agreement checked per input. Distinct = (instantiation, length bucket, #literals, #repeats, #bad keys, #bad values, outcome).".to_string() },
        assumptions: vec!["V::from_meta on the same item is the reference for value acceptance (the scalar conversions themselves are C11/C13's subject)".into()],
        min_nontrivial: min,
        exhaustive: None,
        extra: Default::default(),
    }
}
