//! C13: syntax-typed values reproduce the user's tokens; quoted and bare spellings agree.
//!
//! Every target is fed fragments from every grammar family in bare, quoted, group-wrapped,
//! word and list form. The expectation is computed from the expression darling is handed
//! ("the bare expression itself") or from `syn::parse_str::<T>` of the string contents
//! ("the contents of the string re-parsed by the same grammar").

use crate::gram;
use crate::tok::{canon_of, canon_str};
use darling::ast::NestedMeta;
use darling::util::{parse_expr, Callable, IdentString, PathList};
use darling::{Error, FromMeta};
use serde_json::json;
use std::time::Instant;
use syn::punctuated::Punctuated;
use syn::spanned::Spanned;
use syn::{Expr, Lit, Meta, Token};
use vfcommon::{catch, conclude, fan_out, span_range, Args, Caught, Collector, Outcome, Rng};

trait Tk {
    fn tk(&self) -> String;
}
macro_rules! tk_tokens {
    ($($t:ty),* $(,)?) => { $(impl Tk for $t { fn tk(&self) -> String { canon_of(self) } })* };
}
tk_tokens!(
    syn::Path, syn::Ident, IdentString, syn::Expr, syn::ExprArray, syn::ExprPath, syn::ExprRange, syn::Type, syn::TypeArray, syn::TypeBareFn,
    syn::TypeGroup, syn::TypeImplTrait, syn::TypeInfer, syn::TypeMacro, syn::TypeNever, syn::TypeParam, syn::TypeParen, syn::TypePath,
    syn::TypePtr, syn::TypeReference, syn::TypeSlice, syn::TypeTraitObject, syn::TypeTuple, syn::Visibility, syn::WhereClause,
    syn::WherePredicate, syn::Lit, syn::LitInt, syn::LitFloat, syn::LitStr, syn::LitByte, syn::LitByteStr, syn::LitChar, syn::LitBool,
    proc_macro2::Literal, syn::Meta, Callable
);
impl<T: Tk> Tk for Vec<T> {
    fn tk(&self) -> String {
        self.iter().map(|t| t.tk()).collect::<Vec<_>>().join("| ")
    }
}
macro_rules! tk_num {
    ($($t:ty),*) => { $(impl Tk for $t { fn tk(&self) -> String { self.to_string() } })* };
}
tk_num!(u8, u16, u32, u64, usize);
impl Tk for PathList {
    fn tk(&self) -> String {
        self.iter().map(canon_of).collect::<Vec<_>>().join("| ")
    }
}
impl<T: quote::ToTokens, P: quote::ToTokens> Tk for Punctuated<T, P> {
    fn tk(&self) -> String {
        canon_of(self)
    }
}

fn strip_groups(e: &Expr) -> &Expr {
    let mut e = e;
    while let Expr::Group(g) = e {
        e = &g.expr;
    }
    e
}

/// ... for values that cannot hold an attribute: `#[cfg(..)] $v` hangs the attribute on the group
fn strip_plain_groups(e: &Expr) -> Option<&Expr> {
    let mut e = e;
    while let Expr::Group(g) = e {
        if !g.attrs.is_empty() {
            return None;
        }
        e = &g.expr;
    }
    Some(e)
}

/// what a bare (non string-contents) value is expected to convert to, if accepted
type BareRule = fn(&Expr) -> Option<String>;
/// reference parser of string contents, if the target has a quoted spelling
type QuotedRule = fn(&str) -> Option<String>;
type ListRule = fn(&[NestedMeta]) -> Option<String>;

struct Tgt {
    name: &'static str,
    conv: fn(&Meta) -> Result<String, Error>,
    bare: BareRule,
    quoted: Option<QuotedRule>,
    list: Option<ListRule>,
    word_ok: bool,
    /// the target is a function over the whole meta (helpers, Meta)
    whole: Option<fn(&Meta) -> Option<String>>,
}

/// An expression value as tokens plus the kind of expression it is: two values that print alike
/// but are different expressions (`-1` as one negative literal, `-1` as a negation) are not equal.
fn expr_tk(e: &Expr) -> String {
    let d = format!("{:?}", strip_groups(e));
    let kind = d.split(|c: char| !c.is_alphanumeric() && c != ':').next().unwrap_or("").to_string();
    format!("{} as {kind}", canon_of(e))
}

/// the expression an expression parser reads from the same text: the reference for `expr_tk`
fn expr_ref<T: quote::ToTokens>(t: &T) -> Option<String> {
    syn::parse_str::<Expr>(&quote::ToTokens::to_token_stream(t).to_string()).ok().map(|r| format!("{} as {}", canon_of(t), expr_tk(&r).rsplit(" as ").next().unwrap_or("")))
}

fn lit_of(e: &Expr) -> Option<Lit> {
    match strip_plain_groups(e)? {
        // (an attribute on the literal is part of what the user wrote; a bare literal cannot hold it)
        Expr::Lit(l) if !l.attrs.is_empty() => None,
        Expr::Lit(l) => Some(l.lit.clone()),
        // `-` applied to a numeric literal is how a negative literal arrives when it is not the
        // last thing in its token stream: the same literal
        Expr::Unary(u) if matches!(u.op, syn::UnOp::Neg(_)) && matches!(&*u.expr, Expr::Lit(l) if matches!(l.lit, Lit::Int(_) | Lit::Float(_))) => syn::parse2::<Lit>(quote::ToTokens::to_token_stream(u)).ok(),
        _ => None,
    }
}

fn q<T: syn::parse::Parse + Tk>(s: &str) -> Option<String> {
    syn::parse_str::<T>(s).ok().map(|v| v.tk())
}

macro_rules! quoted_only {
    ($name:literal, $t:ty) => {
        Tgt {
            name: $name,
            conv: |m| <$t as FromMeta>::from_meta(m).map(|v| v.tk()),
            bare: |_| None,
            quoted: Some(q::<$t>),
            list: None,
            word_ok: false,
            whole: None,
        }
    };
}

macro_rules! lit_kind {
    ($name:literal, $t:ty, $variant:path) => {
        Tgt {
            name: $name,
            conv: |m| <$t as FromMeta>::from_meta(m).map(|v| v.tk()),
            // (a negative number followed by another item arrives as `-` applied to a literal: the
            // same literal)
            bare: |e| match lit_of(e) {
                Some(l) if matches!(l, $variant(_)) => Some(canon_of(&l)),
                _ => None,
            },
            quoted: None,
            list: None,
            word_ok: false,
            whole: None,
        }
    };
}

macro_rules! vec_lit_kind {
    ($name:literal, $t:ty, $variant:path) => {
        Tgt {
            name: $name,
            conv: |m| <Vec<$t> as FromMeta>::from_meta(m).map(|v| v.tk()),
            bare: |e| match e {
                Expr::Array(a) => {
                    let mut out = vec![];
                    for el in &a.elems {
                        match lit_of(el) {
                            Some(l) if matches!(l, $variant(_)) => out.push(canon_of(&l)),
                            _ => return None,
                        }
                    }
                    Some(out.join("| "))
                }
                _ => None,
            },
            quoted: Some(|s| {
                let a = syn::parse_str::<syn::ExprArray>(s).ok()?;
                let mut out = vec![];
                for el in &a.elems {
                    match lit_of(el) {
                        Some(l) if matches!(l, $variant(_)) => out.push(canon_of(&l)),
                        _ => return None,
                    }
                }
                Some(out.join("| "))
            }),
            list: Some(|items| {
                let mut out = vec![];
                for it in items {
                    match it {
                        NestedMeta::Lit(l) if matches!(l, $variant(_)) => out.push(canon_of(l)),
                        _ => return None,
                    }
                }
                Some(out.join("| "))
            }),
            word_ok: false,
            whole: None,
        }
    };
}

fn num_elems<T: std::str::FromStr + ToString>(a: &syn::ExprArray) -> Option<String> {
    let mut out = vec![];
    for el in &a.elems {
        // invisible groups are looked through, however many, as for every other value
        let l = match strip_plain_groups(el) {
            Some(Expr::Lit(l)) if l.attrs.is_empty() => &l.lit,
            _ => return None,
        };
        let v: T = match l {
            Lit::Int(i) => i.base10_digits().parse().ok()?,
            Lit::Str(s) => s.value().parse().ok()?,
            _ => return None,
        };
        out.push(v.to_string());
    }
    Some(out.join("| "))
}

macro_rules! vec_num {
    ($name:literal, $t:ty) => {
        Tgt {
            name: $name,
            conv: |m| <Vec<$t> as FromMeta>::from_meta(m).map(|v| v.tk()),
            bare: |e| match e {
                Expr::Array(a) => num_elems::<$t>(a),
                _ => None,
            },
            quoted: Some(|s| num_elems::<$t>(&syn::parse_str::<syn::ExprArray>(s).ok()?)),
            list: None,
            word_ok: false,
            whole: None,
        }
    };
}

fn targets() -> Vec<Tgt> {
    let mut v = vec![
        Tgt {
            name: "Path",
            conv: |m| <syn::Path as FromMeta>::from_meta(m).map(|v| v.tk()),
            // the bare expression itself: a path expression *is* the path only when it has no qualified self
            bare: |e| match e {
                Expr::Path(p) if p.qself.is_none() => Some(canon_of(e)),
                _ => None,
            },
            quoted: Some(q::<syn::Path>),
            list: None,
            word_ok: false,
            whole: None,
        },
        Tgt {
            name: "Ident",
            conv: |m| <syn::Ident as FromMeta>::from_meta(m).map(|v| v.tk()),
            bare: |e| match e {
                Expr::Path(p) if p.qself.is_none() && p.path.get_ident().is_some() => Some(canon_of(e)),
                _ => None,
            },
            // the same grammar as the bare form: a one-segment mod-style path (so `self`, `crate` .. too)
            quoted: Some(|s| syn::parse::Parser::parse_str(syn::Path::parse_mod_style, s).ok().and_then(|p| p.get_ident().map(|i| canon_of(i)))),
            list: None,
            word_ok: false,
            whole: None,
        },
        Tgt {
            name: "IdentString",
            conv: |m| <IdentString as FromMeta>::from_meta(m).map(|v| v.tk()),
            bare: |e| match e {
                Expr::Path(p) if p.qself.is_none() && p.path.get_ident().is_some() => Some(canon_of(e)),
                _ => None,
            },
            // the same grammar as the bare form: a one-segment mod-style path (so `self`, `crate` .. too)
            quoted: Some(|s| syn::parse::Parser::parse_str(syn::Path::parse_mod_style, s).ok().and_then(|p| p.get_ident().map(|i| canon_of(i)))),
            list: None,
            word_ok: false,
            whole: None,
        },
        Tgt {
            name: "Expr",
            conv: |m| <syn::Expr as FromMeta>::from_meta(m).map(|v| expr_tk(&v)),
            bare: |e| match e {
                Expr::Lit(l) if matches!(l.lit, Lit::Str(_)) => None,
                _ => expr_ref(e),
            },
            quoted: Some(|s| syn::parse_str::<Expr>(s).ok().map(|v| expr_tk(&v))),
            list: None,
            word_ok: false,
            whole: None,
        },
        Tgt {
            name: "ExprArray",
            conv: |m| <syn::ExprArray as FromMeta>::from_meta(m).map(|v| v.tk()),
            bare: |e| matches!(e, Expr::Array(_)).then(|| canon_of(e)),
            quoted: Some(q::<syn::ExprArray>),
            list: None,
            word_ok: false,
            whole: None,
        },
        Tgt {
            name: "ExprPath",
            conv: |m| <syn::ExprPath as FromMeta>::from_meta(m).map(|v| v.tk()),
            bare: |e| matches!(e, Expr::Path(_)).then(|| canon_of(e)),
            quoted: Some(q::<syn::ExprPath>),
            list: None,
            word_ok: false,
            whole: None,
        },
        Tgt {
            name: "ExprRange",
            conv: |m| <syn::ExprRange as FromMeta>::from_meta(m).map(|v| v.tk()),
            bare: |e| matches!(e, Expr::Range(_)).then(|| canon_of(e)),
            quoted: Some(q::<syn::ExprRange>),
            list: None,
            word_ok: false,
            whole: None,
        },
        quoted_only!("Type", syn::Type),
        quoted_only!("TypeArray", syn::TypeArray),
        quoted_only!("TypeBareFn", syn::TypeBareFn),
        quoted_only!("TypeGroup", syn::TypeGroup),
        quoted_only!("TypeImplTrait", syn::TypeImplTrait),
        quoted_only!("TypeInfer", syn::TypeInfer),
        quoted_only!("TypeMacro", syn::TypeMacro),
        quoted_only!("TypeNever", syn::TypeNever),
        quoted_only!("TypeParam", syn::TypeParam),
        quoted_only!("TypeParen", syn::TypeParen),
        quoted_only!("TypePath", syn::TypePath),
        quoted_only!("TypePtr", syn::TypePtr),
        quoted_only!("TypeReference", syn::TypeReference),
        quoted_only!("TypeSlice", syn::TypeSlice),
        quoted_only!("TypeTraitObject", syn::TypeTraitObject),
        quoted_only!("TypeTuple", syn::TypeTuple),
        quoted_only!("Visibility", syn::Visibility),
        quoted_only!("WhereClause", syn::WhereClause),
        Tgt {
            name: "Vec<WherePredicate>",
            conv: |m| <Vec<syn::WherePredicate> as FromMeta>::from_meta(m).map(|v| v.tk()),
            bare: |_| None,
            quoted: Some(|s| syn::parse_str::<syn::WhereClause>(&format!("where {s}")).ok().map(|c| c.predicates.into_iter().collect::<Vec<_>>().tk())),
            list: None,
            word_ok: false,
            whole: None,
        },
        Tgt {
            name: "Punctuated<Ident,Comma>",
            conv: |m| <Punctuated<syn::Ident, Token![,]> as FromMeta>::from_meta(m).map(|v| v.tk()),
            bare: |_| None,
            quoted: Some(|s| {
                use syn::parse::Parser;
                Punctuated::<syn::Ident, Token![,]>::parse_terminated.parse_str(s).ok().map(|v| v.tk())
            }),
            list: None,
            word_ok: false,
            whole: None,
        },
        Tgt {
            name: "Punctuated<Path,Comma>",
            conv: |m| <Punctuated<syn::Path, Token![,]> as FromMeta>::from_meta(m).map(|v| v.tk()),
            bare: |_| None,
            quoted: Some(|s| {
                use syn::parse::Parser;
                Punctuated::<syn::Path, Token![,]>::parse_terminated.parse_str(s).ok().map(|v| v.tk())
            }),
            list: None,
            word_ok: false,
            whole: None,
        },
        Tgt {
            name: "Lit",
            conv: |m| <syn::Lit as FromMeta>::from_meta(m).map(|v| v.tk()),
            bare: |e| lit_of(e).map(|l| canon_of(&l)),
            quoted: None,
            list: None,
            word_ok: false,
            whole: None,
        },
        lit_kind!("LitInt", syn::LitInt, Lit::Int),
        lit_kind!("LitFloat", syn::LitFloat, Lit::Float),
        lit_kind!("LitStr", syn::LitStr, Lit::Str),
        lit_kind!("LitByte", syn::LitByte, Lit::Byte),
        lit_kind!("LitByteStr", syn::LitByteStr, Lit::ByteStr),
        lit_kind!("LitChar", syn::LitChar, Lit::Char),
        lit_kind!("LitBool", syn::LitBool, Lit::Bool),
        Tgt {
            // any literal token: `true` / `false` are identifiers and a negative number is two tokens
            name: "Literal",
            conv: |m| <proc_macro2::Literal as FromMeta>::from_meta(m).map(|v| v.tk()),
            bare: |e| match e {
                Expr::Lit(l) if !matches!(l.lit, Lit::Bool(_)) && !canon_of(e).starts_with('-') => Some(canon_of(e)),
                _ => None,
            },
            quoted: None,
            list: None,
            word_ok: false,
            whole: None,
        },
        vec_lit_kind!("Vec<LitInt>", syn::LitInt, Lit::Int),
        vec_lit_kind!("Vec<LitFloat>", syn::LitFloat, Lit::Float),
        vec_lit_kind!("Vec<LitStr>", syn::LitStr, Lit::Str),
        vec_lit_kind!("Vec<LitByte>", syn::LitByte, Lit::Byte),
        vec_lit_kind!("Vec<LitByteStr>", syn::LitByteStr, Lit::ByteStr),
        vec_lit_kind!("Vec<LitChar>", syn::LitChar, Lit::Char),
        vec_lit_kind!("Vec<LitBool>", syn::LitBool, Lit::Bool),
        vec_num!("Vec<u8>", u8),
        vec_num!("Vec<u16>", u16),
        vec_num!("Vec<u32>", u32),
        vec_num!("Vec<u64>", u64),
        vec_num!("Vec<usize>", usize),
        Tgt {
            name: "PathList",
            conv: |m| <PathList as FromMeta>::from_meta(m).map(|v| v.tk()),
            bare: |_| None,
            quoted: None,
            list: Some(|items| {
                let mut out = vec![];
                for it in items {
                    match it {
                        NestedMeta::Meta(Meta::Path(p)) => out.push(canon_of(p)),
                        _ => return None,
                    }
                }
                Some(out.join("| "))
            }),
            word_ok: false,
            whole: None,
        },
        Tgt {
            name: "Meta",
            conv: |m| <syn::Meta as FromMeta>::from_meta(m).map(|v| v.tk()),
            bare: |_| None,
            quoted: None,
            list: None,
            word_ok: true,
            whole: Some(|m| Some(canon_of(m))),
        },
        Tgt {
            name: "Callable",
            conv: |m| <Callable as FromMeta>::from_meta(m).map(|v| v.tk()),
            bare: |e| matches!(e, Expr::Path(_) | Expr::Closure(_)).then(|| canon_of(e)),
            quoted: None,
            list: None,
            word_ok: false,
            whole: None,
        },
        Tgt {
            name: "parse_expr::preserve_str_literal",
            conv: |m| parse_expr::preserve_str_literal(m).map(|v| expr_tk(&v)),
            bare: |_| None,
            quoted: None,
            list: None,
            word_ok: false,
            whole: Some(|m| match m {
                Meta::NameValue(nv) => expr_ref(&nv.value),
                _ => None,
            }),
        },
        Tgt {
            name: "parse_expr::parse_str_literal",
            conv: |m| parse_expr::parse_str_literal(m).map(|v| expr_tk(&v)),
            bare: |_| None,
            quoted: None,
            list: None,
            word_ok: false,
            whole: Some(|m| match m {
                Meta::NameValue(nv) => match strip_groups(&nv.value) {
                    // the helpers differ only on string literals: every other value is kept as it is
                    Expr::Lit(l) if matches!(l.lit, Lit::Str(_)) => match &l.lit {
                        Lit::Str(s) => syn::parse_str::<Expr>(&s.value()).ok().map(|v| expr_tk(&v)),
                        _ => None,
                    },
                    _ => expr_ref(&nv.value),
                },
                _ => None,
            }),
        },
    ];
    v.shrink_to_fit();
    v
}

fn expected(t: &Tgt, m: &Meta) -> Option<String> {
    if let Some(w) = t.whole {
        return w(m);
    }
    match m {
        Meta::Path(_) => None,
        Meta::List(l) => {
            let rule = t.list?;
            let items = NestedMeta::parse_meta_list(l.tokens.clone()).ok()?;
            rule(&items)
        }
        Meta::NameValue(nv) => {
            let e = strip_groups(&nv.value);
            if let Some(v) = (t.bare)(e) {
                return Some(v);
            }
            if let (Some(qr), Expr::Lit(l)) = (t.quoted, e) {
                if let Lit::Str(s) = &l.lit {
                    return qr(&s.value());
                }
            }
            None
        }
    }
}

fn quote_str(s: &str, rng: &mut Rng) -> String {
    if rng.chance(1, 3) && !s.contains("\"#") {
        format!("r#\"{s}\"#")
    } else {
        format!("\"{}\"", s.replace('\\', "\\\\").replace('"', "\\\""))
    }
}

fn fragment(rng: &mut Rng) -> (String, &'static str) {
    match rng.below(24) {
        0 | 1 => (gram::expr_path(rng), "path"),
        2 => (gram::type_path(rng, 2), "type-path"),
        3 => (gram::ident(rng), "ident"),
        4 => ((*rng.pick(&["type", "fn", "self", "Self", "crate", "_", "r#struct", "async"])).to_string(), "keyword"),
        5 | 6 => (gram::expr(rng, 3).0, "expr"),
        7 => {
            let n = rng.below(4);
            let kind = rng.below(7);
            let els: Vec<String> = (0..n)
                .map(|_| match kind {
                    // negative numbers in every spelling: all but the last element arrive as `-` applied
                    // to a literal and must come out as they were written
                    5 => match rng.below(5) {
                        0 => format!("-0x{:x}", rng.below(4096)),
                        1 => format!("-0o{:o}", rng.below(512)),
                        2 => format!("-0b{:b}", rng.below(64)),
                        3 => format!("-1_{:03}i64", rng.below(1000)),
                        _ => format!("-{}", rng.below(300)),
                    },
                    6 => match rng.below(3) {
                        0 => format!("-1_{}.5", rng.below(10)),
                        1 => format!("-{}.25e3", rng.below(100)),
                        _ => format!("-{}.5f32", rng.below(100)),
                    },
                    0 => rng.below(300).to_string(),
                    1 => format!("\"s{}\"", rng.below(9)),
                    2 => gram::lit(rng),
                    3 => format!("\"{}\"", rng.below(300)),
                    _ => format!("{}u8", rng.below(256)),
                })
                .collect();
            // an attribute on an element, or on the array itself: tokens the user wrote, which a plain
            // value cannot carry (a vector of numbers or literals must not silently drop a `#[cfg(..)]`)
            let mut els = els;
            let mut family = "array";
            if !els.is_empty() && rng.chance(1, 8) {
                let k = rng.below(els.len());
                els[k] = format!("#[cfg(feature = \"extra\")] {}", els[k]);
                family = "array-with-attribute";
            }
            (format!("[{}]", els.join(", ")), family)
        }
        8 => (format!("{}..{}", rng.below(9), rng.below(99)), "range"),
        9 | 10 | 11 => (gram::ty(rng, 3), "type"),
        12 => (gram::visibility(rng), "visibility"),
        13 => (gram::where_predicates(rng), "predicates"),
        14 => (format!("where {}", gram::where_predicates(rng)), "where-clause"),
        15 | 16 => (gram::lit(rng), "literal"),
        17 => (format!("|{}| {}", gram::plain_ident(rng), gram::expr(rng, 1).0), "closure"),
        18 => {
            let n = rng.below(4);
            ((0..n).map(|_| gram::plain_ident(rng)).collect::<Vec<_>>().join(", "), "ident-list")
        }
        19 => (format!("<{} as {}>::{}", gram::ty(rng, 1), gram::type_path(rng, 0), gram::plain_ident(rng)), "qself-path"),
        20 => (format!("{}: {} = u8", gram::plain_ident(rng), gram::type_path(rng, 1)), "type-param"),
        21 => ((*rng.pick(&["((", "", "1 +", "a b", "]", "'"])).to_string(), "garbage"),
        22 => (format!("{}, {}", gram::expr_path(rng), gram::expr_path(rng)), "path-list"),
        _ => (gram::meta_path(rng), "meta-path"),
    }
}

/// `name = value` with the value's tokens inside `depth` invisible groups (token spans kept, each
/// group spanning what it holds)
fn group_value_tokens(text: &str, depth: usize) -> Option<proc_macro2::TokenStream> {
    use proc_macro2::{Delimiter, Group, TokenStream, TokenTree};
    let toks: Vec<TokenTree> = text.parse::<TokenStream>().ok()?.into_iter().collect();
    let eq = toks.iter().position(|t| matches!(t, TokenTree::Punct(p) if p.as_char() == '='))?;
    // (the value ends at the next top-level comma, if the item is followed by another one)
    let end = toks.iter().enumerate().skip(eq + 1).find(|(_, t)| matches!(t, TokenTree::Punct(p) if p.as_char() == ',')).map(|(i, _)| i).unwrap_or(toks.len());
    let mut value: Vec<TokenTree> = toks[eq + 1..end].to_vec();
    if value.is_empty() {
        return None;
    }
    for _ in 0..depth {
        let span = value.first().unwrap().span().join(value.last().unwrap().span()).unwrap_or_else(|| value.last().unwrap().span());
        let mut g = Group::new(Delimiter::None, value.into_iter().collect());
        g.set_span(span);
        value = vec![TokenTree::Group(g)];
    }
    Some(toks[..=eq].iter().cloned().chain(value).chain(toks[end..].iter().cloned()).collect())
}

/// `name = [a, b, ..]` with the tokens of `a` inside `depth` invisible groups
fn group_first_element(text: &str, depth: usize) -> Option<proc_macro2::TokenStream> {
    use proc_macro2::{Delimiter, Group, TokenStream, TokenTree};
    let toks: Vec<TokenTree> = text.parse::<TokenStream>().ok()?.into_iter().collect();
    let eq = toks.iter().position(|t| matches!(t, TokenTree::Punct(p) if p.as_char() == '='))?;
    let [TokenTree::Group(arr)] = &toks[eq + 1..] else { return None };
    if arr.delimiter() != Delimiter::Bracket {
        return None;
    }
    let inner: Vec<TokenTree> = arr.stream().into_iter().collect();
    let end = inner.iter().position(|t| matches!(t, TokenTree::Punct(p) if p.as_char() == ',')).unwrap_or(inner.len());
    if end == 0 {
        return None;
    }
    // (an attribute in front of the element stays where the user wrote it, outside the fragment:
    // `#[cfg(..)] $v`)
    let mut lead = 0;
    while lead + 1 < end && matches!(&inner[lead], TokenTree::Punct(p) if p.as_char() == '#') && matches!(&inner[lead + 1], TokenTree::Group(g) if g.delimiter() == Delimiter::Bracket) {
        lead += 2;
    }
    if lead == end {
        return None;
    }
    let attrs_in_front: Vec<TokenTree> = inner[..lead].to_vec();
    let mut first: Vec<TokenTree> = inner[lead..end].to_vec();
    for _ in 0..depth {
        let span = first.first().unwrap().span().join(first.last().unwrap().span()).unwrap_or_else(|| first.last().unwrap().span());
        let mut g = Group::new(Delimiter::None, first.into_iter().collect());
        g.set_span(span);
        first = vec![TokenTree::Group(g)];
    }
    let mut new_arr = Group::new(Delimiter::Bracket, attrs_in_front.into_iter().chain(first).chain(inner[end..].iter().cloned()).collect());
    new_arr.set_span(arr.span());
    Some(toks[..=eq].iter().cloned().chain(std::iter::once(TokenTree::Group(new_arr))).collect())
}

#[allow(dead_code)]
fn wrap_group(e: Expr) -> Expr {
    let sp = e.span();
    Expr::Group(syn::ExprGroup {
        attrs: vec![],
        group_token: syn::token::Group { span: sp },
        expr: Box::new(e),
    })
}

struct Prepared {
    meta: Meta,
    text: String,
    spelling: &'static str,
    span_ok: bool,
}

fn prepare(frag: &str, rng: &mut Rng) -> Vec<Prepared> {
    let mut out = vec![];
    let mut push = |text: String, spelling: &'static str, group: bool| {
        // a grouped spelling is made of tokens, as a `macro_rules!` fragment is: the value's tokens inside
        // an invisible group (twice for "...2"), then parsed like any attribute
        let parsed = if group && spelling.contains("in-list") {
            // followed by another item the value is read by the expression parser, which keeps the group
            // (syn's own reading of the list, as a macro author gets it from `parse_args_with`: darling's
            // list parser stores a grouped literal as the literal it is)
            group_value_tokens(&text, 1).and_then(|ts| syn::parse::Parser::parse2(Punctuated::<Meta, Token![,]>::parse_terminated, ts).ok()).and_then(|items| items.into_iter().next())
        } else if group {
            group_value_tokens(&text, if spelling.ends_with('2') { 2 } else { 1 }).and_then(|ts| syn::parse2::<Meta>(ts).ok())
        } else {
            syn::parse_str::<Meta>(&text).ok()
        };
        if let Some(m) = parsed {
            if group && !matches!(m, Meta::NameValue(_)) {
                return;
            }
            out.push(Prepared {
                meta: m,
                text,
                spelling,
                span_ok: true,
            });
        }
    };
    push(format!("x = {frag}"), "bare", false);
    push(format!("x = {frag}"), "bare-grouped", true);
    // an array whose first element is a fragment of a fragment (two invisible groups around it)
    let element_grouped = group_first_element(&format!("x = {frag}"), 2).and_then(|ts| syn::parse2::<Meta>(ts).ok());
    let qs = quote_str(frag, rng);
    push(format!("x = {qs}"), "quoted", false);
    push(format!("x = {qs}"), "quoted-grouped", true);
    push(format!("x = {qs}, zz = 1"), "quoted-grouped-in-list", true);
    push(format!("x = {frag}, zz = 1"), "bare-grouped-in-list", true);
    if rng.chance(1, 4) {
        push(format!("x = {qs}"), "quoted-grouped2", true);
    }
    if rng.chance(1, 3) {
        push(format!("x({frag})"), "list", false);
    }
    if rng.chance(1, 8) && syn::parse_str::<Meta>(&format!("extra = {frag}")).is_ok() {
        // a named item among the list's items is not an element, whatever its value
        push(format!("x({frag}, extra = {frag})"), "list-with-named-item", false);
        push(format!("x(extra = {frag})"), "list-with-named-item", false);
    }
    if rng.chance(1, 10) {
        push("x".to_string(), "word", false);
    }
    if let Some(m) = element_grouped {
        out.push(Prepared {
            meta: m,
            text: format!("x = {frag}"),
            spelling: "element-grouped2",
            span_ok: true,
        });
    }
    out
}

fn judge_fragment(ts: &[Tgt], frag: &str, family: &'static str, rng: &mut Rng, c: &mut Collector, only: Option<&str>) {
    let preps = prepare(frag, rng);
    if preps.is_empty() {
        c.discarded += 1;
        return;
    }
    for t in ts {
        if let Some(o) = only {
            if t.name != o {
                continue;
            }
        }
        let mut by_spelling: Vec<(&'static str, Option<String>)> = vec![];
        for p in &preps {
            c.eval();
            let want = if matches!(p.meta, Meta::Path(_)) && !t.word_ok { None } else { expected(t, &p.meta) };
            let got = match catch(|| (t.conv)(&p.meta)) {
                Caught::Ok(r) => r,
                Caught::Panic { msg, loc } => {
                    c.violation(format!("C13:{}:panic:{}", t.name, vfcommon::short_loc(&loc)), format!("{} on `{}` panicked: {msg}", t.name, p.text), json!({"input": p.text, "fragment": frag, "spelling": p.spelling, "target": t.name}));
                    continue;
                }
            };
            let mut fail = |class: &str, what: String| {
                c.violation(
                    format!("C13:{}:{class}", t.name),
                    what.clone(),
                    json!({"input": p.text, "fragment": frag, "family": family, "spelling": p.spelling, "target": t.name, "expected": want, "observed": match &got { Ok(v) => format!("Ok({v})"), Err(e) => format!("Err({e})") }, "failure": what}),
                );
            };
            let grouped = p.spelling.contains("grouped");
            match (&got, &want) {
                (Ok(v), Some(w)) => {
                    if v != w {
                        fail(if grouped { "grouped-tokens-differ" } else { "tokens-differ" }, format!("{} from `{}` ({}) prints `{v}`, the user wrote `{w}`", t.name, p.text, p.spelling));
                    }
                }
                (Ok(v), None) => fail(if grouped { "grouped-accepted-invalid" } else { "accepted-invalid" }, format!("{} accepts `{}` ({}) as `{v}`; not a value of that grammar / form", t.name, p.text, p.spelling)),
                (Err(e), Some(w)) => fail(if grouped { "group-not-transparent" } else { "rejected-valid" }, format!("{} rejects `{}` ({}): {e}; expected `{w}`", t.name, p.text, p.spelling)),
                (Err(e), None) => {
                    if p.span_ok {
                        match e.explicit_span().and_then(span_range) {
                            None => fail("error-unspanned", format!("{} on `{}`: error `{e}` has no span", t.name, p.text)),
                            Some((lo, hi)) => {
                                if hi > p.text.len() || lo > hi {
                                    fail("error-span-outside", format!("{} on `{}`: error span [{lo},{hi}) outside the item", t.name, p.text));
                                }
                            }
                        }
                    }
                }
            }
            by_spelling.push((p.spelling, got.as_ref().ok().cloned()));
            c.nontrivial(&(t.name, family, p.spelling, got.is_ok()));
            if c.samples.len() < c.max_samples && c.evaluations % 9973 == 0 {
                c.sample(|| json!({"input": p.text, "spelling": p.spelling, "target": t.name, "family": family, "expected": want, "observed": match &got { Ok(v) => format!("Ok({v})"), Err(e) => format!("Err({e})") }}));
            }
        }
        // where both a bare and a quoted spelling are accepted they produce equal values
        let bare = by_spelling.iter().find(|s| s.0 == "bare").and_then(|s| s.1.clone());
        let quoted = by_spelling.iter().find(|s| s.0 == "quoted").and_then(|s| s.1.clone());
        // (a fragment that is itself a string literal has no separate bare spelling for targets
        // that read string contents)
        let frag_is_str = syn::parse_str::<syn::LitStr>(frag).is_ok();
        if let (Some(b), Some(qv), false) = (&bare, &quoted, frag_is_str) {
            // string-literal targets keep the quotes; they have no quoted spelling of their own
            if b != qv && !["Lit", "LitStr", "Literal", "Meta", "parse_expr::preserve_str_literal"].contains(&t.name) {
                c.violation(
                    format!("C13:{}:bare-quoted-disagree", t.name),
                    format!("{}: bare `{frag}` gives `{b}`, quoted gives `{qv}`", t.name),
                    json!({"input": format!("x = {frag}"), "fragment": frag, "target": t.name}),
                );
            }
            c.count("both_spellings_accepted");
        }
    }
    c.count(&format!("family.{family}"));
}

pub fn run(args: &Args) -> i32 {
    let started = Instant::now();
    let ts = targets();
    if let Some(p) = &args.replay {
        let v: serde_json::Value = serde_json::from_str(&std::fs::read_to_string(p).unwrap_or_default()).unwrap_or_default();
        let frag = v["witness"]["fragment"].as_str().unwrap_or_else(|| vfcommon::die("replay has no fragment")).to_string();
        let target = v["witness"]["target"].as_str().map(|s| s.to_string());
        let mut c = Collector::new();
        for s in 0..8 {
            judge_fragment(&ts, &frag, "replay", &mut Rng::new(s), &mut c, target.as_deref());
        }
        c.nontrivial(&0u8);
        c.nontrivial(&1u8);
        return conclude(args, started, c, outcome(0));
    }
    let total = args.budget(12_000, 1_000_000);
    let c = fan_out(args, 13, total, |_, rng, share, c| {
        for i in 0..share {
            if i % 256 == 0 {
                proc_macro2::extra::invalidate_current_thread_spans();
            }
            let (frag, family) = fragment(rng);
            judge_fragment(&ts, &frag, family, rng, c, None);
        }
    });
    conclude(args, started, c, outcome(1500))
}

fn outcome(min: u64) -> Outcome {
    Outcome {
        level: "exploration",
        rule: "63 syntax-valued targets (paths, idents, expressions and array/path/range forms, Type and 15 variant types, visibility, where-clause, where-predicates, punctuated lists, every literal type and vectors of them, numeric arrays, PathList, Meta, Callable, the two parse_expr helpers) x fragments from 22 grammar families (each fed to every target) x spellings {bare, bare in invisible group, quoted (cooked/raw), quoted in 1-2 invisible groups, list, word}. Expected tokens come from the expression darling is handed or from syn::parse_str::<T> of the string contents; token comparison ignores spacing and invisible groups. Distinct = (target, family, spelling, accepted?).".into(),
        assumptions: vec!["syn::parse_str::<T> is the grammar of T (darling delegates string contents to the same parser)".into()],
        min_nontrivial: min,
        exhaustive: None,
        extra: Default::default(),
    }
}
