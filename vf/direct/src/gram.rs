//! Small text grammars shared by the monitors: identifiers, paths, literals, expressions, types.
//! Everything is produced as source text so that parsing assigns real spans.

use vfcommon::Rng;

pub const IDENTS: [&str; 14] = ["a", "b", "foo", "bar", "x1", "_y", "lorem", "Ipsum", "T", "value", "r#type", "r#fn", "name", "qux"];

pub fn ident(rng: &mut Rng) -> String {
    (*rng.pick(&IDENTS)).to_string()
}

pub fn plain_ident(rng: &mut Rng) -> String {
    loop {
        let i = *rng.pick(&IDENTS);
        if !i.starts_with("r#") {
            return i.to_string();
        }
    }
}

/// mod-style path as allowed for meta item names
pub fn meta_path(rng: &mut Rng) -> String {
    let mut s = String::new();
    if rng.chance(1, 6) {
        s.push_str("::");
    }
    let n = rng.weighted(&[6, 2, 1]) + 1;
    for i in 0..n {
        if i > 0 {
            s.push_str("::");
        }
        // (a keyword first segment may also follow a leading `::`: still "a path starting with `::`")
        if i == 0 && rng.chance(1, 10) {
            s.push_str(*rng.pick(&["crate", "self", "super"]));
        } else {
            s.push_str(&ident(rng));
        }
    }
    s
}

pub fn lit(rng: &mut Rng) -> String {
    match rng.below(16) {
        0 => rng.below(1000).to_string(),
        1 => format!("{}u8", rng.below(200)),
        2 => format!("0x{:x}", rng.below(70000)),
        3 => format!("-{}", rng.below(1000)),
        4 => format!("{}.{}", rng.below(100), rng.below(100)),
        5 => format!("-{}.5", rng.below(100)),
        6 => "1e10".into(),
        7 => format!("\"s{}\"", rng.below(100)),
        8 => "r#\"raw \"q\" text\"#".into(),
        9 => "b\"bytes\"".into(),
        10 => "b'x'".into(),
        11 => format!("'{}'", rng.pick(&['c', 'Z', '7', '#'])),
        12 => "true".into(),
        13 => "false".into(),
        14 => "c\"cstr\"".into(),
        _ => "\"a, b\"".into(),
    }
}

/// Expression text; the bool says whether the text has a comma that is *not* inside a
/// delimiter group (closure parameters, turbofish) — labelled by construction.
pub fn expr(rng: &mut Rng, depth: usize) -> (String, bool) {
    let leaf = depth == 0 || rng.chance(1, 3);
    if leaf {
        return match rng.below(6) {
            0 | 1 => (lit(rng), false),
            2 => (ident(rng), false),
            3 => (format!("{}::{}", plain_ident(rng), ident(rng)), false),
            4 => (format!("::{}::{}", plain_ident(rng), ident(rng)), false),
            _ => (rng.below(100).to_string(), false),
        };
    }
    let d = depth - 1;
    match rng.below(24) {
        0 => {
            let (a, c1) = operand(rng, d);
            let (b, c2) = operand(rng, d);
            let op = *rng.pick(&["+", "-", "*", "/", "%", "&&", "||", "==", "!=", "<=", ">=", "<<", ">>", "&", "|", "^"]);
            (format!("{a} {op} {b}"), c1 || c2)
        }
        1 => {
            let (a, _) = expr(rng, d);
            let (b, _) = expr(rng, d);
            (format!("{}({a}, {b})", plain_ident(rng)), false)
        }
        2 => {
            let (a, c1) = operand(rng, d);
            let (b, _) = expr(rng, d);
            (format!("{a}.{}({b})", plain_ident(rng)), c1)
        }
        3 => {
            let (b, c) = expr(rng, d);
            (format!("|{}| {b}", plain_ident(rng)), c)
        }
        4 => {
            let (b, _) = expr(rng, d);
            (format!("|{}, {}| {b}", plain_ident(rng), plain_ident(rng)), true)
        }
        5 => {
            let (b, _) = expr(rng, d);
            (format!("{{ {b} }}"), false)
        }
        6 => {
            let (a, _) = expr(rng, d);
            let (b, _) = expr(rng, d);
            (format!("[{a}, {b}]"), false)
        }
        7 => (format!("[{}; 3]", expr(rng, d).0), false),
        8 => {
            let (a, c1) = operand(rng, d);
            let (b, c2) = operand(rng, d);
            (format!("{a}..{b}"), c1 || c2)
        }
        9 => (format!("..={}", operand(rng, d).0), false),
        10 => ("..".into(), false),
        11 => (format!("({})", expr(rng, d).0), false),
        12 => (format!("({}, {})", expr(rng, d).0, expr(rng, d).0), false),
        13 => {
            let (a, c) = operand(rng, d);
            (format!("-{a}"), c)
        }
        14 => {
            let (a, c) = operand(rng, d);
            (format!("!{a}"), c)
        }
        15 => {
            let (a, c) = operand(rng, d);
            (format!("&{a}"), c)
        }
        16 => (format!("{}::<{}, {}>::{}", plain_ident(rng), plain_ident(rng), plain_ident(rng), plain_ident(rng)), true),
        17 => (format!("{}::<{}>()", plain_ident(rng), plain_ident(rng)), false),
        18 => (format!("if {} {{ 1 }} else {{ 2 }}", plain_ident(rng)), false),
        19 => (format!("{} {{ {}: {} }}", "Ipsum", plain_ident(rng), expr(rng, d).0), false),
        20 => {
            let (a, c) = operand(rng, d);
            (format!("{a} as u8"), c)
        }
        21 => (format!("{}!({}, {})", plain_ident(rng), expr(rng, d).0, expr(rng, d).0), false),
        22 => {
            let (a, c) = operand(rng, d);
            (format!("{a}[{}]", expr(rng, d).0), c)
        }
        _ => {
            let (a, c) = operand(rng, d);
            (format!("{a}?"), c)
        }
    }
}

/// an expression usable as an operand without changing how the whole parses
fn operand(rng: &mut Rng, depth: usize) -> (String, bool) {
    match rng.below(5) {
        0 => (ident(rng), false),
        1 => (rng.below(100).to_string(), false),
        2 => (format!("({})", expr(rng, depth).0), false),
        3 => (format!("{}({})", plain_ident(rng), expr(rng, depth).0), false),
        _ => (format!("{}::{}", plain_ident(rng), plain_ident(rng)), false),
    }
}

/// path usable in type position (generic args without turbofish)
pub fn type_path(rng: &mut Rng, depth: usize) -> String {
    let mut s = String::new();
    if rng.chance(1, 6) {
        s.push_str("::");
    }
    let n = rng.weighted(&[5, 3, 1]) + 1;
    for i in 0..n {
        if i > 0 {
            s.push_str("::");
        }
        s.push_str(&plain_ident(rng));
    }
    if depth > 0 && rng.chance(1, 3) {
        s.push_str(&format!("<{}>", ty(rng, depth - 1)));
    }
    s
}

/// expression-position path (turbofish for generic args)
pub fn expr_path(rng: &mut Rng) -> String {
    let mut s = String::new();
    if rng.chance(1, 6) {
        s.push_str("::");
    }
    let n = rng.weighted(&[5, 3, 1]) + 1;
    for i in 0..n {
        if i > 0 {
            s.push_str("::");
        }
        s.push_str(&if i == 0 { ident(rng) } else { plain_ident(rng) });
    }
    if rng.chance(1, 5) {
        s.push_str(&format!("::<{}>", plain_ident(rng)));
    }
    s
}

pub fn ty(rng: &mut Rng, depth: usize) -> String {
    let d = depth.saturating_sub(1);
    if depth == 0 {
        return (*rng.pick(&["u8", "String", "T", "bool", "Self", "_", "!"])).to_string();
    }
    match rng.below(15) {
        0 => format!("[{}; 4]", ty(rng, d)),
        1 => format!("fn({}) -> {}", ty(rng, d), ty(rng, d)),
        2 => format!("impl {} + Send", type_path(rng, d)),
        3 => "_".into(),
        4 => format!("{}!({})", plain_ident(rng), plain_ident(rng)),
        5 => "!".into(),
        6 => format!("({})", ty(rng, d)),
        7 | 8 => type_path(rng, d),
        9 => format!("*{} {}", rng.pick(&["const", "mut"]), ty(rng, d)),
        10 => format!("&{}{}{}", if rng.coin() { "'a " } else { "" }, if rng.coin() { "mut " } else { "" }, ty(rng, d)),
        11 => format!("[{}]", ty(rng, d)),
        12 => format!("dyn {} + 'a", type_path(rng, d)),
        13 => format!("({}, {})", ty(rng, d), ty(rng, d)),
        _ => format!("<{} as {}>::{}", ty(rng, d), type_path(rng, 0), plain_ident(rng)),
    }
}

pub fn visibility(rng: &mut Rng) -> String {
    (*rng.pick(&["pub", "pub(crate)", "pub(super)", "pub(self)", "pub(in a::b)", "pub(in crate::x)", ""])).to_string()
}

pub fn where_predicates(rng: &mut Rng) -> String {
    let n = rng.range(1, 3);
    (0..n)
        .map(|_| match rng.below(4) {
            0 => format!("{}: {}", rng.pick(&["T", "U", "Self"]), type_path(rng, 1)),
            1 => "'a: 'b".to_string(),
            2 => format!("{}: {} + 'a", ty(rng, 1), type_path(rng, 0)),
            _ => format!("for<'x> {}: Fn(&'x u8)", rng.pick(&["T", "U"])),
        })
        .collect::<Vec<_>>()
        .join(", ")
}
