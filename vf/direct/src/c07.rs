//! C07 (built-in half): every hand-written FromMeta conversion returns a value or an error on
//! hostile meta items — it never panics.

use crate::gram;
use darling::util::{Callable, Flag, IdentString, Ignored, Override, PathList, SpannedValue, WithOriginal};
use darling::FromMeta;
use serde_json::json;
use std::collections::{BTreeMap, HashMap};
use std::time::Instant;
use syn::Meta;
use vfcommon::{catch, conclude, fan_out, Args, Caught, Collector, Outcome, Rng};

type F = fn(&Meta) -> bool;

macro_rules! t {
    ($($name:literal => $ty:ty),* $(,)?) => {
        vec![$(($name, (|m: &Meta| <$ty as FromMeta>::from_meta(m).is_ok()) as F)),*]
    };
}

fn targets() -> Vec<(&'static str, F)> {
    use std::num::*;
    t![
        "()" => (), "bool" => bool, "AtomicBool" => std::sync::atomic::AtomicBool, "char" => char, "String" => String, "PathBuf" => std::path::PathBuf,
        "u8" => u8, "u16" => u16, "u32" => u32, "u64" => u64, "u128" => u128, "usize" => usize, "i8" => i8, "i16" => i16, "i32" => i32, "i64" => i64, "i128" => i128, "isize" => isize,
        "NonZeroU8" => NonZeroU8, "NonZeroU64" => NonZeroU64, "NonZeroI32" => NonZeroI32, "NonZeroI128" => NonZeroI128, "NonZeroUsize" => NonZeroUsize,
        "f32" => f32, "f64" => f64,
        "Punctuated<Ident,Comma>" => syn::punctuated::Punctuated<syn::Ident, syn::Token![,]>,
        "Expr" => syn::Expr, "Path" => syn::Path, "Ident" => syn::Ident, "ExprArray" => syn::ExprArray, "ExprPath" => syn::ExprPath, "ExprRange" => syn::ExprRange,
        "Type" => syn::Type, "TypeArray" => syn::TypeArray, "TypeBareFn" => syn::TypeBareFn, "TypeGroup" => syn::TypeGroup, "TypeImplTrait" => syn::TypeImplTrait, "TypeInfer" => syn::TypeInfer,
        "TypeMacro" => syn::TypeMacro, "TypeNever" => syn::TypeNever, "TypeParam" => syn::TypeParam, "TypeParen" => syn::TypeParen, "TypePath" => syn::TypePath, "TypePtr" => syn::TypePtr,
        "TypeReference" => syn::TypeReference, "TypeSlice" => syn::TypeSlice, "TypeTraitObject" => syn::TypeTraitObject, "TypeTuple" => syn::TypeTuple, "Visibility" => syn::Visibility, "WhereClause" => syn::WhereClause,
        "Vec<u8>" => Vec<u8>, "Vec<u16>" => Vec<u16>, "Vec<u32>" => Vec<u32>, "Vec<u64>" => Vec<u64>, "Vec<usize>" => Vec<usize>,
        "Lit" => syn::Lit, "LitInt" => syn::LitInt, "LitFloat" => syn::LitFloat, "LitStr" => syn::LitStr, "LitByte" => syn::LitByte, "LitByteStr" => syn::LitByteStr, "LitChar" => syn::LitChar, "LitBool" => syn::LitBool, "Literal" => proc_macro2::Literal,
        "Vec<LitInt>" => Vec<syn::LitInt>, "Vec<LitStr>" => Vec<syn::LitStr>, "Vec<LitBool>" => Vec<syn::LitBool>, "Vec<LitChar>" => Vec<syn::LitChar>, "Vec<LitFloat>" => Vec<syn::LitFloat>, "Vec<LitByte>" => Vec<syn::LitByte>, "Vec<LitByteStr>" => Vec<syn::LitByteStr>,
        "Meta" => syn::Meta, "Vec<WherePredicate>" => Vec<syn::WherePredicate>, "RenameRule" => darling::export::syn::Ident,
        "Option<u8>" => Option<u8>, "Result<u8>" => darling::Result<u8>, "Box<String>" => Box<String>, "Rc<bool>" => std::rc::Rc<bool>, "Arc<i64>" => std::sync::Arc<i64>, "RefCell<char>" => std::cell::RefCell<char>,
        "Result<u8,Meta>" => std::result::Result<u8, Meta>,
        "HashMap<String,u8>" => HashMap<String, u8>, "HashMap<Ident,String>" => HashMap<syn::Ident, String>, "HashMap<Path,Expr>" => HashMap<syn::Path, syn::Expr>, "BTreeMap<String,bool>" => BTreeMap<String, bool>, "BTreeMap<Ident,u8>" => BTreeMap<syn::Ident, u8>,
        "HashMap<String,HashMap<String,u8>>" => HashMap<String, HashMap<String, u8>>,
        "Callable" => Callable, "Flag" => Flag, "IdentString" => IdentString, "Ignored" => Ignored, "Override<u8>" => Override<u8>, "Override<Expr>" => Override<syn::Expr>, "PathList" => PathList,
        "SpannedValue<u8>" => SpannedValue<u8>, "SpannedValue<Vec<LitStr>>" => SpannedValue<Vec<syn::LitStr>>, "WithOriginal<Path,Meta>" => WithOriginal<syn::Path, Meta>,
    ]
}

fn hostile_meta(rng: &mut Rng) -> String {
    let name = gram::meta_path(rng);
    let soup = |rng: &mut Rng| -> String {
        let pool = ["=", ",", "!", "1 2", "::", "\"s\"", "99999999999999999999999999999999999999999999", "1e999", "b\"x\"", "'c'", "-", "fn", "self", "r#type", "(a, b)", "[1; 2]", "{ x }", "true", "a::b::<C>", "|x| x", "..", "?", "-1.5e-300", "0xffff_ffff_ffff_ffff_ffff", "c\"c\"", "\"[1, 2\"", "\"((\"", "\"\"", "\" \"", "340282366920938463463374607431768211456", "-170141183460469231731687303715884105729", "[1, -2, \"3\", 4u8, 256, x]", "[\"a\", b\"b\", 'c', 1.0]"];
        let n = rng.range(1, 4);
        (0..n).map(|_| *rng.pick(&pool)).collect::<Vec<_>>().join(" ")
    };
    match rng.below(10) {
        0 => name,
        1 | 2 => format!("{name} = {}", gram::expr(rng, 4).0),
        3 => format!("{name} = {}", gram::lit(rng)),
        4 => format!("{name} = {}", soup(rng)),
        5 => format!("{name}({})", soup(rng)),
        6 => {
            let mut s = "a".to_string();
            for _ in 0..rng.range(10, 120) {
                s = format!("a({s})");
            }
            format!("{name}({s})")
        }
        7 => format!("{name} = \"{}\"", gram::ty(rng, 3).replace('"', "")),
        8 => format!("{name}[{}]", (0..rng.range(0, 4)).map(|_| gram::lit(rng)).collect::<Vec<_>>().join(", ")),
        _ => format!("{name}{{{}}}", (0..rng.range(0, 4)).map(|_| format!("{} = {}", gram::meta_path(rng), gram::expr(rng, 2).0)).collect::<Vec<_>>().join(", ")),
    }
}

pub fn run(args: &Args) -> i32 {
    let started = Instant::now();
    let ts = targets();
    let total = args.budget(20_000, 2_000_000);
    let c = fan_out(args, 7, total, |_, rng, share, c| {
        for i in 0..share {
            if i % 256 == 0 {
                proc_macro2::extra::invalidate_current_thread_spans();
            }
            let text = hostile_meta(rng);
            let Ok(meta) = syn::parse_str::<Meta>(&text) else {
                c.discarded += 1;
                continue;
            };
            let form = match &meta {
                Meta::Path(_) => "word",
                Meta::List(_) => "list",
                Meta::NameValue(_) => "name-value",
            };
            for (name, f) in &ts {
                c.eval();
                match catch(|| f(&meta)) {
                    Caught::Ok(ok) => {
                        c.nontrivial(&(*name, form, ok, text.len().min(40) / 8));
                    }
                    Caught::Panic { msg, loc } => c.violation(
                        format!("C07:builtin:{name}:panic:{}", vfcommon::short_loc(&loc)),
                        format!("{name}::from_meta panicked on `{text}`: {msg}"),
                        json!({"input": text, "target": name, "panic": msg, "at": loc}),
                    ),
                }
            }
            c.count(&format!("form.{form}"));
            if c.samples.len() < c.max_samples && c.evaluations % 50021 == 0 {
                c.sample(|| json!({"input": text, "form": form}));
            }
        }
    });
    conclude(
        args,
        started,
        c,
        Outcome {
            level: "exploration",
            rule: "hostile meta items (random expressions, every literal kind, 44-digit and 128-bit-boundary integers, 1e999, token soup after `=` and inside lists, nesting 10..120 levels deep, other delimiters, type / expression text in strings) converted by 100 hand-written FromMeta targets (scalars, syn types, literal and numeric vectors, maps, wrappers, util types) under catch_unwind: Ok or Err, never a panic. Distinct = (target, form, accepted, length bucket).".into(),
            assumptions: vec![],
            min_nontrivial: 300,
            exhaustive: None,
            extra: Default::default(),
        },
    )
}
