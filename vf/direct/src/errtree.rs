//! C04 (error-tree algebra) and the algebraic half of C03 (spans are never lost or replaced).
//!
//! A random history of at()/at_path()/with_span()/multiple()/clone()/flatten()/into_iter()
//! is applied to real `darling::Error` values and, in lock step, to a small model tree.
//! Every leaf message embeds a unique id, every path segment is a unique id and every span
//! is the byte range of a distinct token of a parsed source string, so an observed leaf
//! identifies exactly which model leaf it is.

use darling::Error;
use proc_macro2::{Span, TokenStream, TokenTree};
use serde_json::{json, Value};
use std::time::Instant;
use vfcommon::{catch, conclude, fan_out, span_range, Args, Caught, Collector, Outcome, Rng};

#[derive(Clone, Copy, PartialEq, Eq, Debug)]
pub enum Mode {
    Algebra,
    Spans,
}

type R = Option<(usize, usize)>;

#[derive(Clone, Debug)]
enum M {
    Leaf {
        ctor: &'static str,
        kind: String,
        locs: Vec<String>,
        span: R,
    },
    Bundle {
        kids: Vec<M>,
        locs: Vec<String>,
        span: R,
    },
}

#[derive(Clone, Debug)]
struct Flat {
    kind: String,
    path: Vec<String>,
    own: R,
    inherited: R,
}

impl Flat {
    fn display(&self) -> String {
        if self.path.is_empty() {
            self.kind.clone()
        } else {
            format!("{} at {}", self.kind, self.path.join("/"))
        }
    }
    fn span(&self) -> R {
        self.own.or(self.inherited)
    }
}

impl M {
    fn locs(&self) -> &Vec<String> {
        match self {
            M::Leaf { locs, .. } | M::Bundle { locs, .. } => locs,
        }
    }
    fn locs_mut(&mut self) -> &mut Vec<String> {
        match self {
            M::Leaf { locs, .. } | M::Bundle { locs, .. } => locs,
        }
    }
    fn span(&self) -> R {
        match self {
            M::Leaf { span, .. } | M::Bundle { span, .. } => *span,
        }
    }
    fn set_span_if_none(&mut self, r: R) {
        match self {
            M::Leaf { span, .. } | M::Bundle { span, .. } => {
                if span.is_none() {
                    *span = r
                }
            }
        }
    }
    fn leaf_count(&self) -> usize {
        match self {
            M::Leaf { .. } => 1,
            M::Bundle { kids, .. } => kids.iter().map(M::leaf_count).sum(),
        }
    }
    fn depth(&self) -> usize {
        match self {
            M::Leaf { .. } => 0,
            M::Bundle { kids, .. } => 1 + kids.iter().map(M::depth).max().unwrap_or(0),
        }
    }
    fn flat_into(&self, prefix: &[String], inherited: R, out: &mut Vec<Flat>) {
        match self {
            M::Leaf { kind, locs, span, .. } => {
                let mut path = prefix.to_vec();
                path.extend(locs.iter().cloned());
                out.push(Flat {
                    kind: kind.clone(),
                    path,
                    own: *span,
                    inherited,
                });
            }
            M::Bundle { kids, locs, span } => {
                let mut path = prefix.to_vec();
                path.extend(locs.iter().cloned());
                let inh = span.or(inherited);
                for k in kids {
                    k.flat_into(&path, inh, out);
                }
            }
        }
    }
    fn flat(&self) -> Vec<Flat> {
        let mut v = vec![];
        self.flat_into(&[], None, &mut v);
        v
    }
    fn display_leaf(&self) -> Option<String> {
        match self {
            M::Leaf { kind, locs, .. } => Some(if locs.is_empty() {
                kind.clone()
            } else {
                format!("{} at {}", kind, locs.join("/"))
            }),
            _ => None,
        }
    }
    fn shape(&self, out: &mut String) {
        match self {
            M::Leaf { ctor, locs, span, .. } => {
                out.push_str(ctor);
                out.push_str(&locs.len().to_string());
                if span.is_some() {
                    out.push('s')
                }
            }
            M::Bundle { kids, locs, span } => {
                out.push('B');
                out.push_str(&locs.len().to_string());
                if span.is_some() {
                    out.push('s')
                }
                out.push('(');
                for k in kids {
                    k.shape(out);
                    out.push(',');
                }
                out.push(')');
            }
        }
    }
    /// The model's flatten(): a bundle of fully-located leaves, or the single leaf.
    fn flattened(&self, inherit: bool) -> M {
        let fl = self.flat();
        let mut kids: Vec<M> = fl
            .into_iter()
            .map(|f| M::Leaf {
                ctor: "F",
                kind: f.kind.clone(),
                locs: f.path.clone(),
                span: if inherit { f.span() } else { f.own },
            })
            .collect();
        if kids.len() == 1 {
            // flatten() of a single leaf keeps the leaf
            let mut k = kids.pop().unwrap();
            if let (M::Leaf { ctor, .. }, M::Leaf { ctor: c0, .. }) = (&mut k, self) {
                *ctor = c0;
            }
            k
        } else {
            M::Bundle {
                kids,
                locs: vec![],
                span: None,
            }
        }
    }
}

struct Toks {
    idents: Vec<(syn::Ident, (usize, usize))>,
    lits: Vec<(syn::Lit, (usize, usize))>,
    src: String,
}

fn make_tokens(case: u64) -> Toks {
    let mut src = String::new();
    for i in 0..14 {
        src.push_str(&format!("sp{}_{} ", i, case % 1000));
    }
    for i in 0..4 {
        src.push_str(&format!("{} ", 9000 + i));
    }
    src.push_str("'c' \"str\" 1.5 b'x'");
    let ts: TokenStream = syn::parse_str(&src).expect("token source");
    let mut idents = vec![];
    let mut lits = vec![];
    for tt in ts {
        let r = span_range(tt.span()).expect("real span");
        match tt {
            TokenTree::Ident(i) => idents.push((i, r)),
            TokenTree::Literal(l) => {
                let lit: syn::Lit = syn::parse2(TokenTree::Literal(l).into()).expect("lit");
                lits.push((lit, r))
            }
            _ => {}
        }
    }
    Toks { idents, lits, src }
}

struct Case<'a> {
    rng: Rng,
    toks: &'a Toks,
    next_uid: u32,
    pool: Vec<(Error, M)>,
    hist: Vec<String>,
    inherit: bool,
}

impl<'a> Case<'a> {
    fn uid(&mut self) -> u32 {
        self.next_uid += 1;
        self.next_uid
    }

    fn new_leaf(&mut self) -> (Error, M) {
        let u = self.uid();
        let name = format!("u{u}");
        let which = self.rng.below(16);
        let mut span: R = None;
        let (ctor, e): (&'static str, Error) = match which {
            0 => ("custom", Error::custom(format!("custom message {name}"))),
            1 => ("dup", Error::duplicate_field(&name)),
            2 => ("missing", Error::missing_field(&name)),
            3 => ("unknown", Error::unknown_field(&name)),
            4 => {
                let alts = vec![format!("u{}", u + 100000), "zzzz".to_string()];
                ("unknown_alts", Error::unknown_field_with_alts(&name, &alts))
            }
            5 => ("shape", Error::unsupported_shape(&name)),
            6 => ("shape_exp", Error::unsupported_shape_with_expected(&name, &"something else")),
            7 => ("format", Error::unsupported_format(&name)),
            8 => ("type", Error::unexpected_type(&name)),
            9 => ("value", Error::unknown_value(&name)),
            10 => ("few", Error::too_few_items(u as usize)),
            11 => ("many", Error::too_many_items(u as usize)),
            12 => {
                let (l, r) = self.rng.pick(&self.toks.lits).clone();
                span = Some(r);
                ("lit_type", Error::unexpected_lit_type(&l))
            }
            13 => {
                let (i, r) = self.rng.pick(&self.toks.idents).clone();
                span = Some(r);
                let ex: syn::Expr = syn::parse2(quote::quote!(#i)).expect("expr");
                ("expr_type", Error::unexpected_expr_type(&ex))
            }
            14 => {
                let (i, r) = self.rng.pick(&self.toks.idents).clone();
                span = Some(r);
                ("from_syn", Error::from(syn::Error::new(i.span(), format!("syn message {name}"))))
            }
            _ => {
                let p: syn::Path = syn::parse_str(&format!("{name}::tail")).unwrap();
                ("dup_path", Error::duplicate_field_path(&p))
            }
        };
        let kind = e.to_string();
        self.hist.push(format!("new {ctor} {name} -> {kind:?}"));
        (
            e,
            M::Leaf {
                ctor,
                kind,
                locs: vec![],
                span,
            },
        )
    }

    fn step(&mut self, c: &mut Collector) {
        let n = self.pool.len();
        let op = if n == 0 {
            0
        } else {
            self.rng.weighted(&[5, 4, 1, 4, 4, 1, 2, 1])
        };
        match op {
            0 => {
                let x = self.new_leaf();
                self.pool.push(x);
                c.count("op.new");
            }
            1 => {
                let i = self.rng.below(n);
                let (e, m) = self.pool.remove(i);
                let mut m = m;
                // segments are unique most of the time (a leaf's path then identifies its history); now and
                // then a segment repeats the one in front of it or comes from a pool of two: a field `a`
                // nested in a field `a` is a path `a/a`
                let seg = match self.rng.below(8) {
                    0 | 1 => m.locs_mut().first().cloned().unwrap_or_else(|| "a".to_string()),
                    2 => (*self.rng.pick(&["a", "b"])).to_string(),
                    _ => format!("p{}", self.uid()),
                };
                m.locs_mut().insert(0, seg.clone());
                self.hist.push(format!("#{i}.at({seg})"));
                self.pool.push((e.at(&seg), m));
                c.count("op.at");
            }
            2 => {
                let i = self.rng.below(n);
                let a = format!("q{}", self.uid());
                let b = format!("r{}", self.uid());
                let p: syn::Path = syn::parse_str(&format!("{a}::{b}")).unwrap();
                let (e, mut m) = self.pool.remove(i);
                m.locs_mut().insert(0, format!("{a}::{b}"));
                self.hist.push(format!("#{i}.at_path({a}::{b})"));
                self.pool.push((e.at_path(&p), m));
                c.count("op.at_path");
            }
            3 => {
                let i = self.rng.below(n);
                let (id, r) = self.rng.pick(&self.toks.idents).clone();
                let (e, mut m) = self.pool.remove(i);
                let had = m.span().is_some();
                m.set_span_if_none(Some(r));
                self.hist.push(format!("#{i}.with_span({:?})", r));
                self.pool.push((e.with_span(&id), m));
                c.count(if had { "op.with_span.on_spanned" } else { "op.with_span.fresh" });
            }
            4 => {
                let k = self.rng.range(1, n.min(6));
                let mut es = vec![];
                let mut ms = vec![];
                let mut idx = vec![];
                for _ in 0..k {
                    let i = self.rng.below(self.pool.len());
                    let (e, m) = self.pool.remove(i);
                    idx.push(i);
                    es.push(e);
                    ms.push(m);
                }
                self.hist.push(format!("multiple(take {:?})", idx));
                let e = Error::multiple(es);
                let m = if ms.len() == 1 {
                    c.count("op.multiple.one");
                    ms.pop().unwrap()
                } else {
                    c.count("op.multiple.many");
                    M::Bundle {
                        kids: ms,
                        locs: vec![],
                        span: None,
                    }
                };
                self.pool.push((e, m));
            }
            5 => {
                if n < 12 {
                    let i = self.rng.below(n);
                    let x = self.pool[i].clone();
                    self.hist.push(format!("#{i}.clone()"));
                    self.pool.push(x);
                    c.count("op.clone");
                }
            }
            6 => {
                let i = self.rng.below(n);
                let (e, m) = self.pool.remove(i);
                self.hist.push(format!("#{i}.flatten()"));
                let fm = m.flattened(self.inherit);
                self.pool.push((e.flatten(), fm));
                c.count("op.flatten");
            }
            _ => {
                // into_iter() and re-bundle the children
                let i = self.rng.below(n);
                let (e, m) = self.pool.remove(i);
                self.hist.push(format!("#{i}.into_iter() -> multiple"));
                let kids: Vec<Error> = e.into_iter().collect();
                let m2 = match m {
                    M::Leaf { .. } => m,
                    M::Bundle { kids: mk, locs, .. } => {
                        // The statement does not say whether the parent's own path is pushed
                        // into the children by into_iter(); follow whichever the code does.
                        let real_first = kids
                            .first()
                            .and_then(|k| k.clone().flatten().into_iter().next())
                            .map(|l| l.to_string());
                        let plain_first = mk.first().map(|k| k.flat()[0].display());
                        let with_parent = !locs.is_empty() && kids.len() == mk.len() && real_first != plain_first;
                        let mk: Vec<M> = if with_parent {
                            mk.into_iter()
                                .map(|mut k| {
                                    let mut l = locs.clone();
                                    l.extend(k.locs().iter().cloned());
                                    *k.locs_mut() = l;
                                    k
                                })
                                .collect()
                        } else {
                            mk
                        };
                        if kids.len() != mk.len() {
                            // reported by the checker below through the count mismatch
                            self.hist.push(format!(
                                "into_iter yielded {} children, model has {}",
                                kids.len(),
                                mk.len()
                            ));
                        }
                        M::Bundle {
                            kids: mk,
                            locs: vec![],
                            span: None,
                        }
                    }
                };
                self.pool.push((Error::multiple(kids), m2));
                c.count("op.into_iter");
            }
        }
    }
}

fn compile_errors(ts: TokenStream, out: &mut Vec<(String, R)>) {
    let v: Vec<TokenTree> = ts.into_iter().collect();
    let mut i = 0;
    while i < v.len() {
        match &v[i] {
            TokenTree::Ident(id) if id == "compile_error" => {
                if let (Some(TokenTree::Punct(p)), Some(TokenTree::Group(g))) = (v.get(i + 1), v.get(i + 2)) {
                    if p.as_char() == '!' {
                        let msg = syn::parse2::<syn::LitStr>(g.stream())
                            .map(|l| l.value())
                            .unwrap_or_else(|_| format!("<unparsed {}>", g.stream()));
                        out.push((msg, span_range(id.span())));
                        i += 3;
                        continue;
                    }
                }
            }
            TokenTree::Group(g) => compile_errors(g.stream(), out),
            _ => {}
        }
        i += 1;
    }
}

fn r2j(r: R) -> Value {
    match r {
        Some((a, b)) => json!([a, b]),
        None => Value::Null,
    }
}

fn check(mode: Mode, e: &Error, m: &M, fail: &mut dyn FnMut(&str, String)) {
    let flat = m.flat();
    let n = flat.len();
    // count
    if e.len() != n {
        fail("len", format!("len() = {} but the tree has {} leaves", e.len(), n));
    }
    // Display
    let shown = e.to_string();
    match m {
        M::Leaf { .. } => {
            let want = m.display_leaf().unwrap();
            if shown != want {
                fail("display-leaf", format!("Display {shown:?}, expected {want:?}"));
            }
        }
        M::Bundle { kids, locs, .. } => {
            let suffix = format!(" at {}", locs.join("/"));
            if !locs.is_empty() && !shown.ends_with(&suffix) {
                fail("display-bundle-path", format!("Display {shown:?} does not end with {suffix:?}"));
            }
            if locs.is_empty() && !shown.ends_with(')') {
                fail("display-bundle-path", format!("Display {shown:?} of a path-less bundle has a trailing part"));
            }
            let mut pos = 0usize;
            for k in kids {
                if let Some(d) = k.display_leaf() {
                    match shown[pos..].find(&d) {
                        Some(p) => pos += p + d.len(),
                        None => {
                            fail("display-bundle-children", format!("Display {shown:?} lacks child {d:?} in order"));
                            break;
                        }
                    }
                }
            }
        }
    }
    // explicit span of the value itself: first span wins, never replaced
    if mode == Mode::Spans {
        let got = e.explicit_span().and_then(span_range);
        if got != m.span() {
            fail(
                "span-replaced-or-lost",
                format!("explicit_span() range {:?}, expected {:?} (first attached span)", got, m.span()),
            );
        }
        if e.has_span() != m.span().is_some() {
            fail("has-span", format!("has_span() = {} but model span {:?}", e.has_span(), m.span()));
        }
    }
    // flatten
    let f = e.clone().flatten();
    if f.len() != n {
        fail("flatten-len", format!("flatten().len() = {}, expected {}", f.len(), n));
    }
    let leaves: Vec<Error> = f.clone().into_iter().collect();
    if leaves.len() != n {
        fail("flatten-count", format!("flatten() yields {} leaves, expected {}", leaves.len(), n));
    } else {
        for (i, (l, fl)) in leaves.iter().zip(flat.iter()).enumerate() {
            if l.len() != 1 {
                fail("flatten-not-flat", format!("flattened entry {i} has len {}", l.len()));
            }
            let d = l.to_string();
            if d != fl.display() {
                let class = if d.starts_with(&fl.kind) { "flatten-path" } else { "flatten-order" };
                fail(class, format!("flattened leaf {i} shows {d:?}, expected {:?}", fl.display()));
            }
            if mode == Mode::Spans {
                let got = l.explicit_span().and_then(span_range);
                if got != fl.span() {
                    let class = if fl.own.is_some() {
                        "flatten-span-changed"
                    } else if got.is_none() {
                        "flatten-bundle-span-lost"
                    } else {
                        "flatten-span-invented"
                    };
                    fail(
                        class,
                        format!(
                            "flattened leaf {i} ({:?}) has span {:?}; own {:?}, enclosing bundle {:?}",
                            fl.display(),
                            got,
                            fl.own,
                            fl.inherited
                        ),
                    );
                }
            }
        }
    }
    // flatten twice == once
    let ff: Vec<String> = f.clone().flatten().into_iter().map(|x| x.to_string()).collect();
    let f1: Vec<String> = leaves.iter().map(|x| x.to_string()).collect();
    if ff != f1 {
        fail("flatten-idempotent", format!("flatten twice {ff:?} differs from once {f1:?}"));
    }
    // into_iter: direct children
    let direct: Vec<Error> = e.clone().into_iter().collect();
    match m {
        M::Leaf { .. } => {
            if direct.len() != 1 || direct[0].to_string() != shown {
                fail("into-iter-leaf", format!("into_iter of a leaf yields {} items", direct.len()));
            }
        }
        M::Bundle { kids, locs, .. } => {
            if direct.len() != kids.len() {
                fail("into-iter-count", format!("into_iter yields {} items, bundle has {} children", direct.len(), kids.len()));
            } else {
                for (d, k) in direct.iter().zip(kids.iter()) {
                    if d.len() != k.leaf_count() {
                        fail("into-iter-child", format!("child has len {}, expected {}", d.len(), k.leaf_count()));
                    }
                    if let Some(want) = k.display_leaf() {
                        let got = d.to_string();
                        let mut l = locs.clone();
                        l.extend(k.locs().iter().cloned());
                        let alt = match k {
                            M::Leaf { kind, .. } if !l.is_empty() => format!("{} at {}", kind, l.join("/")),
                            _ => want.clone(),
                        };
                        if got != want && got != alt {
                            fail("into-iter-child", format!("child shows {got:?}, expected {want:?}"));
                        }
                    }
                }
            }
        }
    }
    // conversion to compiler diagnostics
    let se = syn::Error::from(e.clone());
    let msgs: Vec<(String, R)> = se.into_iter().map(|x| (x.to_string(), span_range(x.span()))).collect();
    if msgs.len() != n {
        fail("syn-count", format!("syn::Error has {} messages, expected {}", msgs.len(), n));
    } else {
        for (i, ((msg, sp), fl)) in msgs.iter().zip(flat.iter()).enumerate() {
            match mode {
                Mode::Algebra => {
                    if *msg != fl.kind && *msg != fl.display() {
                        fail("syn-message", format!("diagnostic {i} says {msg:?}, expected {:?} (or with its path)", fl.kind));
                    }
                }
                Mode::Spans => {
                    let want_span = fl.span();
                    if want_span.is_some() {
                        if *sp != want_span {
                            fail(
                                "syn-span",
                                format!("diagnostic {i} ({msg:?}) is at {:?}, the leaf's span is {:?}", sp, want_span),
                            );
                        }
                    } else {
                        if sp.is_some() {
                            fail("syn-span-invented", format!("diagnostic {i} has a span {:?} but the leaf has none", sp));
                        }
                        if *msg != fl.display() {
                            fail(
                                "syn-unspanned-path",
                                format!("unspanned diagnostic {i} says {msg:?}; must render the location path: {:?}", fl.display()),
                            );
                        }
                    }
                }
            }
        }
    }
    let mut ce = vec![];
    compile_errors(e.clone().write_errors(), &mut ce);
    if ce.len() != n {
        fail("write-errors-count", format!("write_errors() has {} compile_error! invocations, expected {}", ce.len(), n));
    } else {
        for (i, ((cm, cs), (sm, ss))) in ce.iter().zip(msgs.iter()).enumerate() {
            if cm != sm {
                fail("write-errors-message", format!("compile_error {i} says {cm:?}, diagnostic says {sm:?}"));
            }
            if mode == Mode::Spans && cs != ss {
                fail("write-errors-span", format!("compile_error {i} tokens at {:?}, diagnostic at {:?}", cs, ss));
            }
        }
    }
}

pub fn run_case(mode: Mode, case_seed: u64, inherit: bool, c: &mut Collector) {
    let toks = make_tokens(case_seed);
    let mut case = Case {
        rng: Rng::new(case_seed),
        toks: &toks,
        next_uid: 0,
        pool: vec![],
        hist: vec![],
        inherit,
    };
    let steps = case.rng.range(1, 36);
    let mut failures: Vec<(String, String)> = vec![];
    for s in 0..steps {
        case.step(c);
        if s + 1 == steps || case.rng.chance(1, 5) {
            for (e, m) in &case.pool {
                c.eval();
                let mut fail = |class: &str, what: String| {
                    if !failures.iter().any(|(k, _)| k == class) {
                        failures.push((class.to_string(), what));
                    }
                };
                check(mode, e, m, &mut fail);
            }
        }
    }
    let mut depth = 0;
    for (_, m) in &case.pool {
        depth = depth.max(m.depth());
        if m.leaf_count() >= 2 || !m.flat()[0].path.is_empty() || m.span().is_some() {
            let mut s = String::new();
            m.shape(&mut s);
            c.nontrivial(&s);
        }
    }
    c.count(&format!("depth.{depth}"));
    let hist = case.hist.clone();
    let src = toks.src.clone();
    c.sample(|| json!({"history": hist, "final_pool": case.pool.iter().map(|(e, _)| e.to_string()).collect::<Vec<_>>()}));
    let prop = if mode == Mode::Algebra { "C04" } else { "C03" };
    for (class, what) in failures {
        c.violation(
            format!("{prop}:errtree:{class}"),
            what.clone(),
            json!({"case_seed": case_seed, "mode": format!("{mode:?}"), "token_source": src, "history": case.hist, "failure": what}),
        );
    }
}

pub fn run(args: &Args, mode: Mode) -> i32 {
    let started = Instant::now();
    // Whether leaves inherit the span of the enclosing bundle when flattened is what C03 states;
    // C04 does not look at spans at all, so the flag only matters in Spans mode.
    let inherit = true;
    if let Some(p) = &args.replay {
        let v: Value = serde_json::from_str(&std::fs::read_to_string(p).unwrap_or_default()).unwrap_or(Value::Null);
        let seed = v["witness"]["case_seed"].as_u64().unwrap_or_else(|| vfcommon::die("replay file has no case_seed"));
        let mut c = Collector::new();
        run_case(mode, seed, inherit, &mut c);
        c.nontrivial(&1u8);
        c.nontrivial(&2u8);
        return conclude(args, started, c, outcome(mode, 0));
    }
    let total = args.budget(60_000, 3_000_000);
    let mut c = fan_out(args, 4, total, |_, rng, share, c| {
        for i in 0..share {
            if i % 512 == 0 {
                proc_macro2::extra::invalidate_current_thread_spans();
            }
            let cs = rng.next_u64();
            match catch(|| {
                let mut local = Collector::new();
                run_case(mode, cs, inherit, &mut local);
                local
            }) {
                Caught::Ok(l) => c.merge(l),
                Caught::Panic { msg, loc } => c.violation(
                    format!("{}:errtree:panic:{}", if mode == Mode::Algebra { "C04" } else { "C03" }, vfcommon::short_loc(&loc)),
                    format!("panic while operating on an error tree: {msg}"),
                    json!({"case_seed": cs, "panic": msg, "at": loc}),
                ),
            }
        }
    });
    // documented panic of multiple(vec![]) — asserted once per run
    match catch(|| Error::multiple(vec![])) {
        Caught::Ok(_) => c.violation("C04:errtree:multiple-empty", "Error::multiple(vec![]) returned instead of panicking", json!({"input": "Error::multiple(vec![])"})),
        Caught::Panic { .. } => c.count("multiple_empty_panics"),
    }
    let _ = Span::call_site();
    conclude(args, started, c, outcome(mode, 500))
}

fn outcome(mode: Mode, min: u64) -> Outcome {
    Outcome {
        level: "exploration",
        rule: match mode {
            Mode::Algebra => "random histories (1..36 ops over new-leaf of 16 constructors / at / at_path / with_span / multiple(1..6) / clone / flatten / into_iter+rebundle) applied to darling::Error and a model tree; every pool entry is checked (len, Display, flatten order+paths, idempotence, into_iter, syn::Error conversion, write_errors). Non-trivial = final tree with >=2 leaves, a path or a span; distinct = distinct tree shape (constructor, path length, span flag per node).".into(),
            Mode::Spans => "same histories as C04 with spans taken from distinct tokens of a parsed source string; checks explicit_span() is the first span attached (never replaced), flatten keeps each leaf's span or gives it the nearest enclosing bundle's, syn::Error / compile_error! tokens carry that range, unspanned diagnostics render the path. Non-trivial/distinct as for C04.".into(),
        },
        assumptions: vec![
            "proc-macro2 fallback spans (span-locations) report faithful byte ranges".into(),
            "syn::Error::into_iter / into_compile_error are faithful".into(),
        ],
        min_nontrivial: min,
        exhaustive: None,
        extra: Default::default(),
    }
}
