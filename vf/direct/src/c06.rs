//! C06: the six derives are total. Each is called in-process on generated items under
//! catch_unwind; the returned token stream is parsed as items and classified.

use crate::declgen::{self, TRAITS};
use proc_macro2::TokenStream;
use serde_json::json;
use std::time::Instant;
use syn::DeriveInput;
use vfcommon::{catch, conclude, fan_out, Args, Caught, Collector, Outcome, Rng};

pub type DeriveFn = fn(&DeriveInput) -> TokenStream;

pub fn derives() -> [(&'static str, DeriveFn); 6] {
    [
        ("FromMeta", darling_core::derive::from_meta),
        ("FromDeriveInput", darling_core::derive::from_derive_input),
        ("FromField", darling_core::derive::from_field),
        ("FromVariant", darling_core::derive::from_variant),
        ("FromTypeParam", darling_core::derive::from_type_param),
        ("FromAttributes", darling_core::derive::from_attributes),
    ]
}

#[derive(Debug, Clone)]
pub struct Classified {
    pub impls: Vec<syn::ItemImpl>,
    pub errors: Vec<(String, Option<(usize, usize)>)>,
    pub other_items: usize,
}

fn despell_crate(ts: TokenStream) -> TokenStream {
    use proc_macro2::{Group, Ident, TokenTree};
    let tts: Vec<TokenTree> = ts.into_iter().collect();
    let mut out = Vec::with_capacity(tts.len());
    for (i, tt) in tts.iter().enumerate() {
        out.push(match tt {
            TokenTree::Group(g) => {
                let mut n = Group::new(g.delimiter(), despell_crate(g.stream()));
                n.set_span(g.span());
                TokenTree::Group(n)
            }
            TokenTree::Ident(id) if id == "crate" && !matches!(tts.get(i + 1), Some(TokenTree::Punct(p)) if p.as_char() == ':') => TokenTree::Ident(Ident::new("__vf_crate", id.span())),
            other => other.clone(),
        });
    }
    out.into_iter().collect()
}

/// Parse the derive's output as items: impl blocks of `trait_name`, compile_error! invocations
/// (message + byte range of their tokens), anything else.
pub fn classify(ts: TokenStream, trait_name: &str) -> Result<Classified, String> {
    // syn reads a statement that starts with `crate` and is not followed by `::` as an item with
    // the retired `crate` visibility and gives up (`else { crate() }` for `default = crate`);
    // rustc parses it and reports the name at the user's token. Where the first reading fails
    // the stream is read again with such a `crate` spelled as an ordinary identifier.
    let file: syn::File = match syn::parse2(ts.clone()) {
        Ok(f) => f,
        Err(e) => syn::parse2(despell_crate(ts.clone())).map_err(|_| format!("output does not parse as items: {e}"))?,
    };
    let mut out = Classified {
        impls: vec![],
        errors: vec![],
        other_items: 0,
    };
    for item in file.items {
        match item {
            syn::Item::Impl(i) => {
                let is_trait = i.trait_.as_ref().map(|(_, p, _)| p.segments.last().map(|s| s.ident == trait_name).unwrap_or(false)).unwrap_or(false);
                if is_trait {
                    out.impls.push(i)
                } else {
                    out.other_items += 1
                }
            }
            syn::Item::Macro(m) if m.mac.path.segments.last().map(|s| s.ident == "compile_error").unwrap_or(false) => {
                let msg = syn::parse2::<syn::LitStr>(m.mac.tokens.clone()).map(|l| l.value()).unwrap_or_else(|_| m.mac.tokens.to_string());
                let first = m.mac.path.segments.last().unwrap().ident.span();
                out.errors.push((msg, vfcommon::span_range(first)));
            }
            _ => out.other_items += 1,
        }
    }
    Ok(out)
}

fn judge(src: &str, shape: &str, c: &mut Collector) {
    let Ok(di) = syn::parse_str::<DeriveInput>(src) else {
        c.discarded += 1;
        return;
    };
    for (name, f) in derives() {
        c.eval();
        let mut fail = |class: String, what: String| {
            c.violation(format!("C06:{class}"), what.clone(), json!({"input": src, "derive": name, "failure": what}));
        };
        match catch(|| f(&di)) {
            Caught::Panic { msg, loc } => {
                let class = if msg.contains("Accumulator dropped") { "unfinished-accumulator" } else { "panic" };
                fail(format!("{class}:{}", vfcommon::short_loc(&loc)), format!("derive({name}) panicked on `{src}`: {msg}"));
            }
            Caught::Ok(ts) => match classify(ts.clone(), name) {
                Err(e) => fail("unparsable-output".into(), format!("derive({name}) on `{src}`: {e}")),
                Ok(cl) => {
                    let verdict = match (cl.impls.len(), cl.errors.len()) {
                        (0, 0) => {
                            fail("empty-output".into(), format!("derive({name}) on `{src}` returned neither an impl nor a diagnostic ({} other items)", cl.other_items));
                            "nothing"
                        }
                        (1, 0) => "impl",
                        (0, _) => "diagnostics",
                        (n, 0) => {
                            fail("several-impls".into(), format!("derive({name}) on `{src}` returned {n} impl blocks of the trait"));
                            "impl"
                        }
                        (_, _) => {
                            fail("impl-and-diagnostics".into(), format!("derive({name}) on `{src}` returned an impl together with {} diagnostics", cl.errors.len()));
                            "both"
                        }
                    };
                    c.count(&format!("outcome.{verdict}"));
                    c.nontrivial(&(name, shape.to_string(), verdict, cl.errors.len().min(4), src.matches("#[darling").count().min(4)));
                    if c.samples.len() < c.max_samples && c.evaluations % 20011 == 0 {
                        c.sample(|| json!({"input": src, "derive": name, "outcome": verdict, "diagnostics": cl.errors.iter().map(|e| e.0.clone()).collect::<Vec<_>>()}));
                    }
                }
            },
        }
    }
    c.count(&format!("shape.{shape}"));
}

/// hand-written corner declarations that every run includes
const FIXED: [&str; 26] = [
    "#[darling] struct A;",
    "#[darling = \"x\"] struct A { a: u8 }",
    "#[darling(\"lit\")] struct A { a: u8 }",
    "#[darling(bogus =, default =)] struct A { a: u8 }",
    "struct A { #[darling] a: u8 }",
    "struct A { #[darling(5)] a: u8 }",
    "enum A { #[darling] X }",
    "enum A { #[darling(\"s\")] X, Y }",
    "struct A(u8, u8);",
    "struct A();",
    "struct A(u8);",
    "enum A { X(u8, u8) }",
    "enum A { X() }",
    "enum A {}",
    "#[darling(attributes(a))] enum A {}",
    "union A { a: u8 }",
    "#[darling(attributes(a))] union A { a: u8, b: u16 }",
    "#[darling(supports(struct_struct_named))] struct A { a: u8 }",
    "#[darling(attributes())] struct A { a: u8 }",
    "#[darling(forward_attrs())] struct A { attrs: Vec<syn::Attribute> }",
    "struct A { #[darling(flatten)] a: B, #[darling(flatten)] b: B }",
    "struct A<const N: usize> { a: [u8; N] }",
    "struct A { r#type: u8, r#fn: u8 }",
    "#[darling(default)] #[darling(default)] struct A { a: u8 }",
    "#[darling(from_word = || Ok(A))] struct A;",
    "enum A { #[darling(word)] X, #[darling(word)] Y, #[darling(word)] Z(u8) }",
];

pub fn run(args: &Args) -> i32 {
    let started = Instant::now();
    if let Some(p) = &args.replay {
        let v: serde_json::Value = serde_json::from_str(&std::fs::read_to_string(p).unwrap_or_default()).unwrap_or_default();
        let src = v["witness"]["input"].as_str().unwrap_or_else(|| vfcommon::die("replay has no input")).to_string();
        let mut c = Collector::new();
        judge(&src, "replay", &mut c);
        c.nontrivial(&0u8);
        c.nontrivial(&1u8);
        return conclude(args, started, c, outcome(0));
    }
    let total = args.budget(120_000, 6_000_000);
    let c = fan_out(args, 6, total, |w, rng, share, c| {
        if w == 0 {
            for s in FIXED {
                judge(s, "fixed", c);
            }
        }
        for i in 0..share {
            if i % 512 == 0 {
                proc_macro2::extra::invalidate_current_thread_spans();
            }
            let d = declgen::hostile_decl(rng);
            judge(&d.src, &d.shape, c);
        }
    });
    let _ = (TRAITS, Rng::new(0));
    conclude(args, started, c, outcome(300))
}

fn outcome(min: u64) -> Outcome {
    Outcome {
        level: "exploration",
        rule: "DeriveInput items generated as source text (unit / newtype / 0,2,3-tuple / named structs, enums with 0..5 mixed variants and discriminants, unions; generics with lifetimes, bounded/defaulted types, consts, where-clauses; `#[darling ...]` on container, variants and fields as option lists with valid and invalid values, wrong-level and unknown options, bare / name-value / bracket / brace forms, literal items, nested lists and token soup; magic and raw field names) plus 26 fixed corner declarations; each of the six derives runs under catch_unwind and its output is parsed as items and classified (impl of the trait vs compile_error!). Distinct = (derive, body shape, outcome, #diagnostics, #darling attributes).".into(),
        assumptions: vec!["derive functions are called through darling_core::derive::* exactly as the proc-macro shim does (macro/src/lib.rs only parses the input and forwards)".into()],
        min_nontrivial: min,
        exhaustive: None,
        extra: Default::default(),
    }
}
