//! xoshiro256** seeded through splitmix64; deterministic per (seed, stream, worker).

#[derive(Clone, Debug)]
pub struct Rng {
    s: [u64; 4],
}

fn splitmix(x: &mut u64) -> u64 {
    *x = x.wrapping_add(0x9E37_79B9_7F4A_7C15);
    let mut z = *x;
    z = (z ^ (z >> 30)).wrapping_mul(0xBF58_476D_1CE4_E5B9);
    z = (z ^ (z >> 27)).wrapping_mul(0x94D0_49BB_1331_11EB);
    z ^ (z >> 31)
}

impl Rng {
    pub fn new(seed: u64) -> Rng {
        let mut x = seed;
        let s = [splitmix(&mut x), splitmix(&mut x), splitmix(&mut x), splitmix(&mut x)];
        Rng { s }
    }

    pub fn for_stream(seed: u64, stream: u64, worker: u64) -> Rng {
        let mut x = seed ^ stream.wrapping_mul(0xA24B_AED4_963E_E407) ^ worker.wrapping_mul(0x9FB2_1C65_1E98_DF25);
        let a = splitmix(&mut x);
        Rng::new(a ^ seed.rotate_left(17))
    }

    pub fn next_u64(&mut self) -> u64 {
        let r = self.s[1].wrapping_mul(5).rotate_left(7).wrapping_mul(9);
        let t = self.s[1] << 17;
        self.s[2] ^= self.s[0];
        self.s[3] ^= self.s[1];
        self.s[1] ^= self.s[2];
        self.s[0] ^= self.s[3];
        self.s[2] ^= t;
        self.s[3] = self.s[3].rotate_left(45);
        r
    }

    /// Uniform in [0, n). n must be > 0.
    pub fn below(&mut self, n: usize) -> usize {
        debug_assert!(n > 0);
        (((self.next_u64() >> 11) as u128 * n as u128) >> 53) as usize
    }

    /// Uniform in [lo, hi] inclusive.
    pub fn range(&mut self, lo: usize, hi: usize) -> usize {
        lo + self.below(hi - lo + 1)
    }

    pub fn chance(&mut self, num: u32, den: u32) -> bool {
        (self.below(den as usize) as u32) < num
    }

    pub fn coin(&mut self) -> bool {
        self.next_u64() & 1 == 1
    }

    pub fn pick<'a, T>(&mut self, xs: &'a [T]) -> &'a T {
        &xs[self.below(xs.len())]
    }

    /// Pick an index by integer weights.
    pub fn weighted(&mut self, ws: &[u32]) -> usize {
        let total: u32 = ws.iter().sum();
        let mut r = self.below(total as usize) as u32;
        for (i, w) in ws.iter().enumerate() {
            if r < *w {
                return i;
            }
            r -= *w;
        }
        ws.len() - 1
    }

    pub fn shuffle<T>(&mut self, xs: &mut [T]) {
        for i in (1..xs.len()).rev() {
            let j = self.below(i + 1);
            xs.swap(i, j);
        }
    }

    pub fn fork(&mut self) -> Rng {
        Rng::new(self.next_u64())
    }
}
