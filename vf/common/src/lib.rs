//! Shared plumbing for the darling runtime monitors: seeded PRNG, worker fan-out,
//! three-valued verdicts, evidence files, replay files and known-finding matching.

use serde_json::{json, Map, Value};
use std::collections::{BTreeMap, HashSet};
use std::panic::{self, AssertUnwindSafe};
use std::path::PathBuf;
use std::time::Instant;

pub mod rng;
pub use rng::Rng;

/// Command line shared by every monitor binary.
#[derive(Clone, Debug)]
pub struct Args {
    pub prop: String,
    pub tier: String,
    pub seed: u64,
    pub evidence: Option<PathBuf>,
    pub replay_dir: PathBuf,
    pub known: PathBuf,
    pub replay: Option<PathBuf>,
    pub threads: usize,
    pub scale: f64,
    pub extra: BTreeMap<String, String>,
}

impl Args {
    pub fn parse() -> Args {
        let mut a = Args {
            prop: String::new(),
            tier: std::env::var("VERIF_TIER").unwrap_or_else(|_| "quick".into()),
            seed: std::env::var("VERIF_SEED")
                .ok()
                .and_then(|s| s.parse().ok())
                .unwrap_or(1),
            evidence: None,
            replay_dir: PathBuf::from("/verif/replays"),
            known: PathBuf::from("/verif/known_findings.json"),
            replay: None,
            threads: std::thread::available_parallelism()
                .map(|n| n.get())
                .unwrap_or(4),
            scale: 1.0,
            extra: BTreeMap::new(),
        };
        let mut it = std::env::args().skip(1);
        while let Some(k) = it.next() {
            let mut val = || it.next().unwrap_or_else(|| die(&format!("missing value for {k}")));
            match k.as_str() {
                "--prop" => a.prop = val(),
                "--tier" => a.tier = val(),
                "--seed" => a.seed = val().parse().unwrap_or_else(|_| die("bad --seed")),
                "--evidence" => a.evidence = Some(PathBuf::from(val())),
                "--replay-dir" => a.replay_dir = PathBuf::from(val()),
                "--known" => a.known = PathBuf::from(val()),
                "--replay" => a.replay = Some(PathBuf::from(val())),
                "--threads" => a.threads = val().parse().unwrap_or_else(|_| die("bad --threads")),
                "--scale" => a.scale = val().parse().unwrap_or_else(|_| die("bad --scale")),
                other if other.starts_with("--") => {
                    let v = val();
                    a.extra.insert(other[2..].to_string(), v);
                }
                other => die(&format!("unexpected argument {other}")),
            }
        }
        if a.tier != "quick" && a.tier != "thorough" {
            die("tier must be quick or thorough");
        }
        a
    }

    pub fn thorough(&self) -> bool {
        self.tier == "thorough"
    }

    /// Pick a budget by tier, scaled by `--scale`.
    pub fn budget(&self, quick: u64, thorough: u64) -> u64 {
        let b = if self.thorough() { thorough } else { quick };
        ((b as f64) * self.scale).max(1.0) as u64
    }
}

pub fn die(msg: &str) -> ! {
    println!("INCONCLUSIVE harness: {msg}");
    std::process::exit(2)
}

/// One violation witness.
#[derive(Clone, Debug)]
pub struct Violation {
    /// Stable class of the failure (call site / input class); known findings are keyed on it.
    pub signature: String,
    pub what: String,
    pub witness: Value,
}

/// Per-worker observation record; merged at the end.
#[derive(Default)]
pub struct Collector {
    pub evaluations: u64,
    pub distinct: HashSet<u64>,
    pub samples: Vec<Value>,
    pub max_samples: usize,
    pub violations: Vec<Violation>,
    pub violation_count: u64,
    pub counters: BTreeMap<String, u64>,
    pub discarded: u64,
}

impl Collector {
    pub fn new() -> Self {
        Collector {
            max_samples: 6,
            ..Default::default()
        }
    }
    pub fn eval(&mut self) {
        self.evaluations += 1;
    }
    pub fn evals(&mut self, n: u64) {
        self.evaluations += n;
    }
    /// Record a non-trivial case under a distinctness key.
    pub fn nontrivial<H: std::hash::Hash>(&mut self, key: &H) {
        use std::hash::Hasher;
        let mut h = std::collections::hash_map::DefaultHasher::new();
        key.hash(&mut h);
        self.distinct.insert(h.finish());
    }
    pub fn count(&mut self, k: &str) {
        *self.counters.entry(k.to_string()).or_insert(0) += 1;
    }
    pub fn count_n(&mut self, k: &str, n: u64) {
        *self.counters.entry(k.to_string()).or_insert(0) += n;
    }
    pub fn sample(&mut self, v: impl FnOnce() -> Value) {
        if self.samples.len() < self.max_samples {
            self.samples.push(v());
        }
    }
    pub fn violation(&mut self, signature: impl Into<String>, what: impl Into<String>, witness: Value) {
        self.violation_count += 1;
        let signature = signature.into();
        // keep the first witness of each signature, and at most 200 signatures per worker
        if self.violations.iter().any(|v| v.signature == signature) {
            return;
        }
        if self.violations.len() < 200 {
            self.violations.push(Violation {
                signature,
                what: what.into(),
                witness,
            });
        }
    }
    pub fn merge(&mut self, o: Collector) {
        self.evaluations += o.evaluations;
        self.discarded += o.discarded;
        self.violation_count += o.violation_count;
        self.distinct.extend(o.distinct);
        for s in o.samples {
            if self.samples.len() < self.max_samples.max(6) {
                self.samples.push(s);
            }
        }
        for v in o.violations {
            if !self.violations.iter().any(|x| x.signature == v.signature) {
                self.violations.push(v);
            }
        }
        for (k, n) in o.counters {
            *self.counters.entry(k).or_insert(0) += n;
        }
    }
}

/// Run `f(worker_index, rng, share_of_budget)` on `threads` workers and merge.
/// proc-macro2's fallback spans are thread-local, so every worker is self-contained.
pub fn fan_out<F>(args: &Args, stream: u64, total: u64, f: F) -> Collector
where
    F: Fn(usize, &mut Rng, u64, &mut Collector) + Sync,
{
    let n = args.threads.max(1);
    let mut merged = Collector::new();
    let results: Vec<Result<Collector, String>> = std::thread::scope(|s| {
        let hs: Vec<_> = (0..n)
            .map(|i| {
                let f = &f;
                let seed = args.seed;
                std::thread::Builder::new()
                    .stack_size(256 << 20)
                    .spawn_scoped(s, move || {
                        let mut rng = Rng::for_stream(seed, stream, i as u64);
                        let share = total / n as u64 + if (i as u64) < total % n as u64 { 1 } else { 0 };
                        let mut c = Collector::new();
                        f(i, &mut rng, share, &mut c);
                        c
                    })
                    .expect("spawn")
            })
            .collect();
        hs.into_iter()
            .map(|h| h.join().map_err(|e| panic_message(&e)))
            .collect()
    });
    for r in results {
        match r {
            Ok(c) => merged.merge(c),
            Err(m) => die(&format!("worker panicked outside a monitored call: {m}")),
        }
    }
    merged
}

pub fn panic_message(e: &Box<dyn std::any::Any + Send>) -> String {
    if let Some(s) = e.downcast_ref::<&str>() {
        s.to_string()
    } else if let Some(s) = e.downcast_ref::<String>() {
        s.clone()
    } else {
        "<non-string panic>".into()
    }
}

thread_local! {
    static LAST_PANIC_LOC: std::cell::RefCell<Option<String>> = const { std::cell::RefCell::new(None) };
}

/// Install a panic hook that stays silent and remembers `file:line` of the last panic on this thread.
pub fn install_quiet_panic_hook() {
    panic::set_hook(Box::new(|info| {
        let loc = info
            .location()
            .map(|l| format!("{}:{}", l.file(), l.line()))
            .unwrap_or_default();
        LAST_PANIC_LOC.with(|c| *c.borrow_mut() = Some(loc));
    }));
}

/// Outcome of a monitored call.
pub enum Caught<T> {
    Ok(T),
    Panic { msg: String, loc: String },
}

pub fn catch<T>(f: impl FnOnce() -> T) -> Caught<T> {
    match panic::catch_unwind(AssertUnwindSafe(f)) {
        Ok(v) => Caught::Ok(v),
        Err(e) => Caught::Panic {
            msg: panic_message(&e),
            loc: LAST_PANIC_LOC.with(|c| c.borrow_mut().take()).unwrap_or_default(),
        },
    }
}

/// Strip a leading directory so that panic locations are stable across checkouts.
pub fn short_loc(loc: &str) -> String {
    // a dependency from the cargo registry: crate-version/src/file.rs:line (the registry directory's
    // name differs between machines)
    if let Some(i) = loc.find("/registry/src/") {
        let rest = &loc[i + "/registry/src/".len()..];
        if let Some(j) = rest.find('/') {
            return rest[j + 1..].to_string();
        }
    }
    for marker in ["/core/src/", "/macro/src/", "/src/"] {
        if let Some(i) = loc.find(marker) {
            return loc[i + 1..].to_string();
        }
    }
    loc.to_string()
}

#[derive(Clone, Debug)]
pub struct KnownFinding {
    pub property: String,
    pub status: String,
    pub signature: String,
    pub what: String,
}

pub fn load_known(path: &PathBuf) -> Vec<KnownFinding> {
    let Ok(text) = std::fs::read_to_string(path) else {
        return vec![];
    };
    let v: Value = serde_json::from_str(&text).unwrap_or_else(|e| die(&format!("known findings unreadable: {e}")));
    let mut out = vec![];
    for e in v.get("findings").and_then(|f| f.as_array()).cloned().unwrap_or_default() {
        out.push(KnownFinding {
            property: e["property"].as_str().unwrap_or("").to_string(),
            status: e["status"].as_str().unwrap_or("").to_string(),
            signature: e["signature"].as_str().unwrap_or("").to_string(),
            what: e["what"].as_str().unwrap_or("").to_string(),
        });
    }
    out
}

pub struct Outcome {
    pub level: &'static str,
    pub rule: String,
    pub assumptions: Vec<String>,
    /// Minimum number of distinct non-trivial observations below which the run is inconclusive.
    pub min_nontrivial: u64,
    pub exhaustive: Option<bool>,
    pub extra: Map<String, Value>,
}

/// Write evidence, print verdict lines, and return the process exit code.
pub fn conclude(args: &Args, started: Instant, c: Collector, o: Outcome) -> i32 {
    let known = load_known(&args.known);
    let mut new_violations = vec![];
    let mut known_hits: Vec<(KnownFinding, Violation)> = vec![];
    for v in &c.violations {
        if let Some(k) = known
            .iter()
            .find(|k| k.property == args.prop && k.status == "known" && k.signature == v.signature)
        {
            known_hits.push((k.clone(), v.clone()));
        } else {
            new_violations.push(v.clone());
        }
    }

    let mut lines = vec![];
    let mut replay_paths = vec![];
    if !new_violations.is_empty() && args.replay.is_none() {
        let dir = args.replay_dir.join(&args.prop);
        let _ = std::fs::create_dir_all(&dir);
        for v in &new_violations {
            let name: String = v
                .signature
                .chars()
                .map(|ch| if ch.is_ascii_alphanumeric() || ch == '-' || ch == '_' { ch } else { '_' })
                .take(100)
                .collect();
            let path = dir.join(format!("{}-s{}.json", name, args.seed));
            let body = json!({
                "property": args.prop, "tier": args.tier, "seed": args.seed,
                "part": args.extra.get("part"),
                "signature": v.signature, "what": v.what, "witness": v.witness,
            });
            let _ = std::fs::write(&path, serde_json::to_string_pretty(&body).unwrap());
            replay_paths.push(path.display().to_string());
            lines.push(format!(
                "VIOLATION property={} replay={} signature={} :: {}",
                args.prop,
                path.display(),
                v.signature,
                v.what
            ));
        }
    } else {
        for v in &new_violations {
            lines.push(format!(
                "VIOLATION property={} replay={} signature={} :: {}",
                args.prop,
                args.replay.as_ref().map(|p| p.display().to_string()).unwrap_or_default(),
                v.signature,
                v.what
            ));
        }
    }
    for (k, _) in &known_hits {
        lines.push(format!("KNOWN-FINDING: property={} {} [{}]", args.prop, k.what, k.signature));
    }

    let distinct = c.distinct.len() as u64;
    let inconclusive = new_violations.is_empty() && distinct < o.min_nontrivial;

    let mut coverage = Map::new();
    coverage.insert("evaluations".into(), json!(c.evaluations));
    coverage.insert("distinct_nontrivial".into(), json!(distinct));
    coverage.insert("rule".into(), json!(o.rule));
    coverage.insert("samples".into(), Value::Array(c.samples.clone()));
    if let Some(e) = o.exhaustive {
        coverage.insert("exhaustive".into(), json!(e));
    }
    coverage.insert("discarded_inputs".into(), json!(c.discarded));
    coverage.insert(
        "observed".into(),
        Value::Object(c.counters.iter().map(|(k, v)| (k.clone(), json!(v))).collect()),
    );
    coverage.insert("min_nontrivial_required".into(), json!(o.min_nontrivial));
    coverage.insert("violating_observations".into(), json!(c.violation_count));
    coverage.insert(
        "known_findings_observed".into(),
        json!(known_hits.iter().map(|(k, _)| k.signature.clone()).collect::<Vec<_>>()),
    );
    coverage.insert(
        "new_violation_signatures".into(),
        json!(new_violations.iter().map(|v| v.signature.clone()).collect::<Vec<_>>()),
    );
    coverage.insert("verdict".into(), json!(if !new_violations.is_empty() { "violated" } else if inconclusive { "inconclusive" } else { "held on what was observed" }));
    for (k, v) in o.extra {
        coverage.insert(k, v);
    }
    let ev = json!({
        "property_id": args.prop,
        "tier": args.tier,
        "seed": args.seed,
        "level": o.level,
        "coverage": Value::Object(coverage),
        "assumptions": o.assumptions,
        "wall_s": (started.elapsed().as_secs_f64() * 100.0).round() / 100.0,
        "violations": new_violations.len(),
    });
    if let Some(p) = &args.evidence {
        if let Some(d) = p.parent() {
            let _ = std::fs::create_dir_all(d);
        }
        if let Err(e) = std::fs::write(p, serde_json::to_string_pretty(&ev).unwrap()) {
            die(&format!("cannot write evidence: {e}"));
        }
    }
    for l in &lines {
        println!("{l}");
    }
    println!(
        "{}: tier={} seed={} evaluations={} distinct_nontrivial={} violations={} known={} wall={:.1}s",
        args.prop,
        args.tier,
        args.seed,
        c.evaluations,
        distinct,
        new_violations.len(),
        known_hits.len(),
        started.elapsed().as_secs_f64()
    );
    if !new_violations.is_empty() {
        1
    } else if inconclusive {
        println!(
            "INCONCLUSIVE property={} only {} distinct non-trivial observations (minimum {})",
            args.prop, distinct, o.min_nontrivial
        );
        2
    } else {
        0
    }
}

/// Byte range of a span in the thread's fallback source map, or None for call_site.
pub fn span_range(s: proc_macro2::Span) -> Option<(usize, usize)> {
    let r = s.byte_range();
    if r.start == 0 && r.end == 0 {
        None
    } else {
        Some((r.start, r.end))
    }
}
