//! E3: corpora of generated receiver crates compiled against /repo and driven with generated inputs.

mod drive;
mod elem;
mod emit;
mod gen;
mod input;
mod interp;
mod judge;
mod spec;
mod values;

use gen::*;
use input::*;
use interp::*;
use judge::*;
use serde_json::{json, Value};
use spec::*;
use std::path::PathBuf;
use std::time::Instant;
use vfcommon::{conclude, Args, Collector, Outcome as Verdict, Rng};

pub fn profile_general() -> Profile {
    Profile {
        name: "general",
        traits: vec![Trait::Meta, Trait::Meta, Trait::DeriveInput, Trait::Field, Trait::Variant, Trait::TypeParam, Trait::Attributes],
        p_enum: 3,
        p_nested: 3,
        magic: false,
        supports: false,
        forward_attrs: false,
        flatten: true,
        options: true,
        body_recv: false,
        max_depth: 2,
        hostile_names: false,
        generic_recv: false,
        skip_newtype_foreign: false,
        flatten_weight: 2,
    }
}

pub struct Built {
    pub recvs: Vec<Recv>,
    pub tops: Vec<usize>,
    pub corpus: drive::Corpus,
    pub target: PathBuf,
    pub compile_errors: Vec<drive::CompileError>,
}

pub fn build_corpus(tag: &str, seed: u64, profile: Profile, programs: usize, shards: usize, darling_only: bool, suggestions: bool) -> Built {
    let mut rng = Rng::for_stream(seed, 3, 0);
    let mut g = Gen::new(&mut rng, profile.clone());
    let mut tops = vec![];
    for i in 0..programs {
        let tr = profile.traits[i % profile.traits.len()];
        tops.push(g.top_recv(tr));
    }
    let recvs = g.recvs;
    let mut sh: Vec<drive::Shard> = (0..shards)
        .map(|i| drive::Shard {
            name: format!("shard{i}"),
            ids: vec![],
            source: String::new(),
            built: false,
        })
        .collect();
    for (i, t) in tops.iter().enumerate() {
        sh[i % shards].ids.push(*t);
    }
    sh.retain(|s| !s.ids.is_empty());
    for s in sh.iter_mut() {
        s.source = if darling_only { emit::emit_shard_darling_only(&recvs, &s.ids) } else { emit::emit_shard(&recvs, &s.ids) };
    }
    // VF_WORK lets a background sweep use its own scratch area (default: /verif/work)
    let work = std::env::var("VF_WORK").unwrap_or_else(|_| "/verif/work".to_string());
    let dir = PathBuf::from(format!("{work}/corpus/{tag}"));
    let target = PathBuf::from(format!("{work}/target-corpus-{tag}"));
    let mut corpus = drive::Corpus::write(&dir, sh, darling_only, suggestions);
    let compile_errors = match corpus.build(&target) {
        Ok(e) => e,
        Err(e) => vfcommon::die(&e),
    };
    Built {
        recvs,
        tops,
        corpus,
        target,
        compile_errors,
    }
}

fn recv_source(recvs: &[Recv], id: usize) -> String {
    // the receiver and everything it references, as emitted
    let s = emit::emit_shard(recvs, &[id]);
    let start = s.find("// ---- receiver").unwrap_or(0);
    let end = s.find("fn dispatch(").unwrap_or(s.len());
    s[start..end].lines().filter(|l| !l.starts_with("impl ::vf_support::Dump") && !l.starts_with("impl FlattenMark") && !l.trim().is_empty()).collect::<Vec<_>>().join("\n")
}

struct Case {
    entry: &'static str,
    src: String,
    expected: Outcome,
    ranges: Ranges,
    attr_ranges: Vec<R>,
    mistakes: Vec<&'static str>,
    shape: String,
    /// cases of one group are renderings of the same item sequence: their replies must agree
    group: Option<u64>,
    /// the item list behind a `from_list` input, for re-sending with a name substituted (C17)
    items: Option<Vec<Item>>,
}

fn mistakes_count(rng: &mut Rng, prop: &str) -> usize {
    match prop {
        "C01" => 0,
        "C02" | "C03" => rng.weighted(&[1, 4, 3, 2, 2, 2, 1, 1, 1]),
        "C17" => rng.weighted(&[0, 5, 3, 1]),
        _ => rng.weighted(&[3, 3, 2, 1, 1]),
    }
}

/// One generated input for a top-level receiver.
fn make_case(recvs: &[Recv], r: &Recv, rng: &mut Rng, prop: &str) -> Option<Case> {
    let it = Interp::new(recvs);
    let mut ig = InputGen::new(recvs);
    let spacing = rng.below(6) as u8;
    let mut mistakes = vec![];
    match (&r.shape, r.tr) {
        (Shape::Struct(_), Trait::Meta) => {
            let mut items = ig.struct_items(rng, r, 0);
            for _ in 0..mistakes_count(rng, prop) {
                if let Some(k) = ig.inject(rng, &mut items, r, 0) {
                    mistakes.push(k);
                }
            }
            let mut ranges = Ranges::default();
            if rng.coin() {
                let mut src = String::new();
                render_items(&items, &mut src, &mut ranges, spacing, rng.chance(1, 4));
                let expected = match it.recv_from_list(r, &items) {
                    Ok(v) => Outcome::Ok(v),
                    Err(l) => Outcome::Err(l),
                };
                Some(Case {
                    entry: "from_list",
                    src,
                    expected,
                    ranges,
                    attr_ranges: vec![],
                    mistakes,
                    shape: format!("struct/list/{}", items.len().min(6)),
                    group: None,
                    items: Some(items.clone()),
                })
            } else {
                let n = items.len();
                let mut wrapper = list(&mut ig.ids, "outer", items);
                wrapper.delim = if rng.chance(1, 8) { rng.range(1, 2) as u8 } else { 0 };
                let mut src = String::new();
                render_item(&wrapper, &mut src, &mut ranges, spacing);
                let expected = match it.recv_from_meta(r, &wrapper) {
                    Ok(v) => Outcome::Ok(v),
                    Err(l) => Outcome::Err(l),
                };
                Some(Case {
                    entry: "from_meta",
                    src,
                    expected,
                    ranges,
                    attr_ranges: vec![],
                    mistakes,
                    shape: format!("struct/meta/{}", n.min(6)),
                    group: None,
                    items: None,
                })
            }
        }
        (Shape::Enum(_), Trait::Meta) => {
            let mut item = ig.enum_item(rng, "choice", r, 0);
            if let Kind::List(inner) = &mut item.kind {
                for _ in 0..mistakes_count(rng, prop) {
                    if let Some(k) = ig.inject(rng, inner, r, 0) {
                        mistakes.push(k);
                    }
                }
            }
            let mut ranges = Ranges::default();
            let mut src = String::new();
            render_item(&item, &mut src, &mut ranges, spacing);
            let expected = match it.recv_from_meta(r, &item) {
                Ok(v) => Outcome::Ok(v),
                Err(l) => Outcome::Err(l),
            };
            Some(Case {
                entry: "from_meta",
                src,
                expected,
                ranges,
                attr_ranges: vec![],
                mistakes,
                shape: "enum/meta".into(),
                group: None,
                    items: None,
            })
        }
        (Shape::Struct(_), tr) => {
            let mut items = ig.struct_items(rng, r, 0);
            for _ in 0..mistakes_count(rng, prop) {
                if let Some(k) = ig.inject(rng, &mut items, r, 0) {
                    mistakes.push(k);
                }
            }
            let pieces = rng.range(1, 4);
            let mut attrs = partition(rng, r, &items, pieces);
            if prop != "C01" && !r.attr_names.is_empty() && rng.chance(1, 12) {
                // a selected attribute in name-value form is a mistake of its own
                let name = rng.pick(&r.attr_names).clone();
                let pos = rng.below(attrs.len() + 1);
                attrs.insert(
                    pos,
                    Attr {
                        name,
                        kind: AttrKind::NameValue("\"nv\"".into()),
                        gid: 0,
                    },
                );
                for (i, a) in attrs.iter_mut().enumerate() {
                    a.gid = i;
                }
                mistakes.push("name-value-attribute");
            }
            let tail = element_tail(rng, tr);
            let rendered = render_element(rng, tr, &attrs, &tail);
            let texts: Vec<String> = rendered.attrs.iter().map(|(a, b)| rendered.text[*a..*b].to_string()).collect();
            let ev = it.element(r, &attrs, &texts);
            Some(Case {
                entry: tr.entry(),
                src: rendered.text.clone(),
                expected: ev.outcome,
                ranges: rendered.ranges,
                attr_ranges: rendered.attrs,
                mistakes,
                shape: format!("element/{:?}/{}", tr, attrs.len().min(5)),
                group: None,
                    items: None,
            })
        }
        _ => None,
    }
}

type CaseFn = fn(&[Recv], &Recv, &mut Rng, &str, usize) -> Vec<Case>;

struct Plan {
    tag: &'static str,
    profile: Profile,
    programs: (u64, u64),
    per_program: (u64, u64),
    cases: CaseFn,
    min_nontrivial: u64,
    /// aspects of the generic judge that count as violations of the property being run
    adopt: &'static [&'static str],
    /// build the corpus with darling's `suggestions` feature
    suggestions: bool,
}

fn general_cases(recvs: &[Recv], r: &Recv, rng: &mut Rng, prop: &str, _iter: usize) -> Vec<Case> {
    make_case(recvs, r, rng, prop).into_iter().collect()
}

fn general_plan() -> Plan {
    Plan {
        tag: "general",
        profile: profile_general(),
        programs: (224, 1400),
        per_program: (80, 400),
        cases: general_cases,
        min_nontrivial: 200,
        adopt: &[],
        suggestions: true,
    }
}

fn element_plan() -> Plan {
    Plan {
        tag: "element",
        profile: profile_element(),
        programs: (160, 1200),
        per_program: (30, 120),
        cases: partition_cases,
        min_nontrivial: 200,
        adopt: &[],
        suggestions: true,
    }
}

fn enum_plan() -> Plan {
    Plan {
        tag: "enum",
        profile: profile_enum(),
        programs: (96, 900),
        per_program: (19 * 9, 19 * 9 * 2),
        cases: enum_grid_cases,
        min_nontrivial: 200,
        adopt: &[],
        suggestions: true,
    }
}

/// C17: flatten chains up to depth 3, nested receivers inside flatten members, many near-miss names
pub fn profile_suggest() -> Profile {
    Profile {
        name: "suggest",
        traits: vec![Trait::Meta, Trait::Meta, Trait::DeriveInput, Trait::Field],
        p_enum: 2,
        p_nested: 5,
        magic: false,
        supports: false,
        forward_attrs: false,
        flatten: true,
        options: true,
        body_recv: false,
        max_depth: 3,
        hostile_names: false,
        generic_recv: false,
        skip_newtype_foreign: false,
        flatten_weight: 6,
    }
}

fn suggest_plan() -> Plan {
    Plan {
        tag: "suggest",
        profile: profile_suggest(),
        programs: (128, 900),
        per_program: (120, 400),
        cases: general_cases,
        min_nontrivial: 200,
        adopt: &[],
        suggestions: true,
    }
}

pub fn profile_element() -> Profile {
    Profile {
        name: "element",
        traits: ELEMENT_TRAITS.to_vec(),
        p_enum: 0,
        p_nested: 2,
        magic: false,
        supports: false,
        forward_attrs: true,
        flatten: true,
        options: true,
        body_recv: false,
        max_depth: 1,
        hostile_names: false,
        generic_recv: false,
        skip_newtype_foreign: false,
        flatten_weight: 2,
    }
}

pub fn profile_enum() -> Profile {
    Profile {
        name: "enum",
        traits: vec![Trait::Meta],
        p_enum: 10,
        p_nested: 3,
        magic: false,
        supports: false,
        forward_attrs: false,
        flatten: false,
        options: true,
        body_recv: false,
        max_depth: 1,
        hostile_names: false,
        generic_recv: false,
        skip_newtype_foreign: false,
        flatten_weight: 2,
    }
}

pub fn profile_magic() -> Profile {
    Profile {
        name: "magic",
        traits: vec![Trait::DeriveInput, Trait::DeriveInput, Trait::Field, Trait::Variant, Trait::TypeParam],
        p_enum: 0,
        p_nested: 1,
        magic: true,
        supports: true,
        forward_attrs: true,
        flatten: false,
        options: true,
        body_recv: true,
        max_depth: 1,
        hostile_names: false,
        generic_recv: false,
        skip_newtype_foreign: false,
        flatten_weight: 2,
    }
}

pub fn profile_compile_hostile() -> Profile {
    Profile {
        name: "compile-hostile",
        traits: vec![Trait::Meta, Trait::Meta, Trait::DeriveInput, Trait::Field, Trait::Variant, Trait::TypeParam, Trait::Attributes],
        p_enum: 3,
        p_nested: 3,
        magic: true,
        supports: true,
        forward_attrs: true,
        flatten: true,
        options: true,
        body_recv: true,
        max_depth: 2,
        hostile_names: true,
        generic_recv: true,
        skip_newtype_foreign: true,
        flatten_weight: 2,
    }
}

/// C20: every accepted declaration compiles in a crate whose only dependency is darling
fn run_c20(args: &Args) -> i32 {
    let started = Instant::now();
    let programs = args.budget(320, 4000) as usize;
    let built = build_corpus("compile-hostile", args.seed, profile_compile_hostile(), programs, 16, true, true);
    let mut c = Collector::new();
    c.max_samples = 6;
    c.evals(built.tops.len() as u64);
    let mut bad: std::collections::BTreeSet<usize> = Default::default();
    for e in &built.compile_errors {
        let sh = built.corpus.shards.iter().find(|s| s.name == e.shard);
        let id = sh.and_then(|sh| drive::recv_at_line(&sh.source, e.line));
        if let Some(i) = id {
            bad.insert(i);
        }
        let key: String = {
            let mut out = String::new();
            let mut tick = false;
            for ch in e.message.chars() {
                if ch == '`' {
                    tick = !tick;
                    continue;
                }
                if !tick {
                    out.push(ch);
                }
            }
            out.split_whitespace().take(7).collect::<Vec<_>>().join("_")
        };
        let src = id.map(|i| recv_source(&built.recvs, i)).unwrap_or_default();
        // (the one declaration of known finding K2 is told apart from every other unsatisfied bound)
        let key = match id.map(|i| &built.recvs[i]) {
            Some(r) if r.inner_skip && r.inner_foreign && e.code == "E0277" => format!("{key}:skip-on-the-field-of-a-newtype-over-a-type-without-FromMeta"),
            // (... and the one of K3)
            Some(r) if r.inner_multiple && e.code == "E0277" => format!("{key}:multiple-on-the-field-of-a-newtype"),
            _ => key,
        };
        c.violation(
            format!("C20:compile-error:{}:{}", e.code, key),
            format!("receiver {:?} does not compile in a darling-only crate: [{}] {}", id.map(|i| built.recvs[i].name()), e.code, e.message),
            json!({"receiver": src, "error_code": e.code, "message": e.message, "shard": e.shard, "line": e.line}),
        );
    }
    for id in &built.tops {
        let r = &built.recvs[*id];
        let feats = format!("{:?}|{}|{}|{:?}|{:?}|{}", r.tr, r.is_enum(), r.generics, r.cdefault, r.post, r.magic.len());
        c.nontrivial(&(feats, r.fields().len()));
        c.count(&format!("programs.{:?}{}", r.tr, if r.is_enum() { "-enum" } else { "" }));
        if !r.generics.is_empty() {
            c.count("programs.generic");
        }
        if c.samples.len() < 3 && !bad.contains(id) {
            let src = recv_source(&built.recvs, *id);
            c.sample(|| json!({"compiled_receiver": src.lines().take(25).collect::<Vec<_>>().join("\n")}));
        }
    }
    c.count_n("corpus.receivers_total", built.recvs.len() as u64);
    c.count_n("corpus.shards_built", built.corpus.shards.iter().filter(|s| s.built).count() as u64);
    c.count_n("programs.failing", bad.len() as u64);
    let mut extra = serde_json::Map::new();
    extra.insert("programs".into(), json!(built.tops.len()));
    extra.insert("spec_features".into(), feature_table(&built.recvs));
    conclude(
        args,
        started,
        c,
        Verdict {
            level: "exploration",
            rule: "accepted receiver declarations over C01 / C09 / C16's option space (all six traits, enums, nested receivers, flatten, magic fields, body receivers, supports, forward_attrs, defaults, with as path and closure, map / and_then, from_word / from_none as path and closure, generic receivers with lifetime / type / const parameters) with hostile names (darling's option words, names of generated locals without underscores, raw identifiers, variants named None / Some / Ok / Err / Default / Vec / ...), emitted into crates whose ONLY dependency is darling (syn is reached through ::darling::export::syn) and compiled with rustc; every rustc error is a violation, mapped to the receiver it falls in. Distinct = (trait, enum?, generics, container default, transform, #magic fields, #fields).".into(),
            assumptions: vec!["the same emitter produces the corpora of C01..C18, which compile with zero errors when syn is available; warnings are ignored".into()],
            min_nontrivial: 50,
            exhaustive: None,
            extra,
        },
    )
}

/// C16 / C18 / C07: structured input elements for receivers with magic fields, shape sets and bodies
thread_local! {
    /// id of the newtype wrapper around the receiver the current worker generates cases for
    static WRAPPER: std::cell::Cell<Option<usize>> = const { std::cell::Cell::new(None) };
}

fn magic_cases(recvs: &[Recv], r: &Recv, rng: &mut Rng, prop: &str, _iter: usize) -> Vec<Case> {
    let it = Interp::new(recvs);
    let mut ig = InputGen::new(recvs);
    let mut mistakes = vec![];
    let mut eg = elem::ElemGen {
        ig: &mut ig,
        recvs,
        p_mistake: match prop {
            "C16" => 2,
            "C02" | "C03" => 6,
            _ => 3,
        },
    };
    let mut e = eg.element(rng, r, &mut mistakes);
    let rendered = elem::render(&mut e, rng.below(6) as u8);
    let mut expected = it.element_full(r, &e, &rendered.attr_texts, &rendered.text);
    // a newtype wrapper's own `supports(..)` is judged as well: a shape it does not admit is one more
    // mistake, reported together with what the inner receiver finds (C02: none is dropped because
    // another was found first), as a receiver with named fields does
    if let Some(w) = WRAPPER.with(|w| w.get()) {
        if let (Some(words), elem::Element::Item(i)) = (&recvs[w].supports, &e) {
            let mut extra = it.supports_item(words, &i.body);
            if !extra.is_empty() {
                if let Outcome::Err(inner) = &expected {
                    extra.extend(inner.iter().cloned());
                }
                expected = Outcome::Err(extra);
            }
        }
    }
    let mut entry = match (&e, r.tr) {
        (elem::Element::Field(f), _) if f.name.is_none() => "from_tuple_field",
        (_, tr) => tr.entry(),
    };
    // a named field whose type arrives inside an invisible group (a `$t:ty` fragment): the `ty` magic
    // field receives it unchanged, group included
    if entry == "from_field" && WRAPPER.with(|w| w.get()).is_none() && rng.chance(1, 4) {
        entry = "from_field_grouped";
        if let Outcome::Ok(v) = &mut expected {
            if let Some(obj) = v.get_mut(r.name()).and_then(|o| o.as_object_mut()) {
                if let Some(t) = obj.get_mut("@ty") {
                    *t = json!({ "group": t.clone() });
                }
            }
        }
    }
    let shape = match &e {
        elem::Element::Item(i) => match &i.body {
            elem::EBody::Struct(fs) => format!("item/struct-{}/{}", fs.shape(), fs.list().len().min(6)),
            elem::EBody::Enum(vs) => format!("item/enum/{}", vs.len().min(6)),
            elem::EBody::Union(_) => "item/union".to_string(),
        },
        elem::Element::Field(f) => format!("field/{}", if f.name.is_some() { "named" } else { "tuple" }),
        elem::Element::Variant(v) => format!("variant/{}/{}", v.fields.shape(), v.disc.is_some()),
        elem::Element::TypeParam(t) => format!("type-param/{}/{}", t.bounds.len(), t.default.is_some()),
    };
    vec![Case {
        entry,
        src: rendered.text.clone(),
        expected,
        ranges: rendered.ranges,
        attr_ranges: rendered.attr_ranges,
        mistakes,
        shape,
        group: None,
        items: None,
    }]
}

fn magic_plan() -> Plan {
    Plan {
        tag: "magic",
        profile: profile_magic(),
        programs: (160, 1200),
        per_program: (120, 500),
        cases: magic_cases,
        min_nontrivial: 200,
        adopt: &["C01", "C02"],
        suggestions: true,
    }
}

/// C08: one item sequence, its single-attribute form and several partitions into attributes
fn partition_cases(recvs: &[Recv], r: &Recv, rng: &mut Rng, _prop: &str, iter: usize) -> Vec<Case> {
    let it = Interp::new(recvs);
    let mut ig = InputGen::new(recvs);
    let mut items = ig.struct_items(rng, r, 0);
    let mut mistakes = vec![];
    for _ in 0..rng.weighted(&[5, 2, 1, 1]) {
        if let Some(k) = ig.inject(rng, &mut items, r, 0) {
            mistakes.push(k);
        }
    }
    let mut out = vec![];
    let n_parts = 1 + rng.below(6);
    for k in 0..=n_parts {
        let attrs = if k == 0 {
            // the single-attribute form (nothing to read when the receiver names no attribute)
            if r.attr_names.is_empty() {
                vec![]
            } else {
                vec![Attr {
                    name: r.attr_names[0].clone(),
                    kind: AttrKind::List(items.clone(), 0),
                    gid: 0,
                }]
            }
        } else {
            let pieces = rng.range(1, 5);
            partition(rng, r, &items, pieces)
        };
        let tail = element_tail(rng, r.tr);
        let rendered = render_element(rng, r.tr, &attrs, &tail);
        let texts: Vec<String> = rendered.attrs.iter().map(|(a, b)| rendered.text[*a..*b].to_string()).collect();
        let ev = it.element(r, &attrs, &texts);
        out.push(Case {
            entry: r.tr.entry(),
            src: rendered.text.clone(),
            expected: ev.outcome,
            ranges: rendered.ranges,
            attr_ranges: rendered.attrs,
            mistakes: mistakes.clone(),
            shape: format!("partition/{:?}/{}attrs/{}fwd", r.tr, attrs.len().min(6), ev.forwarded.len().min(3)),
            group: Some(iter as u64),
            items: None,
        });
    }
    out
}

/// C09: the grid of every variant name (plus near-miss, skipped and unknown names) x every form
fn enum_grid_cases(recvs: &[Recv], r: &Recv, rng: &mut Rng, _prop: &str, iter: usize) -> Vec<Case> {
    let Shape::Enum(vs) = &r.shape else { return general_cases(recvs, r, rng, "C09", iter) };
    let it = Interp::new(recvs);
    let mut ig = InputGen::new(recvs);
    let mut names: Vec<(String, Option<&Variant>)> = vs.iter().map(|v| (variant_name(r, v), Some(v))).collect();
    let base = names[iter % names.len()].0.clone();
    names.push((near_miss(rng, &base), None));
    names.push(("zzz".to_string(), None));
    names.push((vs[0].rust.clone(), None)); // the Rust spelling, usually not the effective name
    names.retain(|(n, _)| addressable(n));
    // a variant's name behind or in front of another path segment names nothing
    if addressable(&base) && written(&base) == base {
        names.push((format!("q::{base}"), None));
        names.push((format!("{base}::q"), None));
    }
    // `r#` is spelling where an identifier is written (`choice(r#plain)` names `plain`); inside a string
    // it is two more characters, and the string names nothing
    if addressable(&base) && !base.contains("::") && !base.contains('-') {
        names.push((format!("r#{}", base.trim_start_matches("r#")), None));
    }
    if names.is_empty() {
        return vec![];
    }
    const FORMS: usize = 21;
    let (name, var) = names[(iter / FORMS) % names.len()].clone();
    let form = iter % FORMS;
    let e = "choice";
    let mut direct: Option<(&'static str, String, Outcome)> = None;
    let item: Option<Item> = match form {
        0 => Some(nv(&mut ig.ids, e, str_lit(rng, &name))),
        1 => {
            let w = word(&mut ig.ids, &name);
            Some(list(&mut ig.ids, e, vec![w]))
        }
        2..=6 => {
            let lit = match form {
                2 => int_lit(rng, 5),
                3 => str_lit(rng, "s"),
                4 => Lit::Bool(true),
                5 => Lit::Char('c'),
                _ => Lit::Float { text: "1.5".into() },
            };
            let inner = nv(&mut ig.ids, &name, lit);
            Some(list(&mut ig.ids, e, vec![inner]))
        }
        7 | 19 | 20 => {
            // list content: what the variant wants if it is a struct / newtype variant, else `a = 1`
            let mut content = match var.map(|v| &v.body) {
                Some(VBody::Struct(fs)) => ig.fields_items(rng, r, fs, 1),
                Some(VBody::Newtype(t)) => {
                    let inner = ig.item_for(rng, &name, t, 1);
                    match inner.kind {
                        Kind::List(l) => l,
                        _ => vec![inner],
                    }
                }
                _ => vec![nv(&mut ig.ids, "a", int_lit(rng, 1))],
            };
            // form 19: the same list with a semicolon where its first comma belongs - a syntax error inside
            // the variant's list, located under the variant like any inner error
            if form == 19 {
                while content.len() < 2 {
                    content.push(word(&mut ig.ids, "zz"));
                }
            }
            // form 20: the same list with one more item the variant does not know: a mistake, unless the
            // enum allows unknown fields - whatever the variant is called
            if form == 20 {
                content.push(nv(&mut ig.ids, "zz_not_a_field", int_lit(rng, 1)));
            }
            let mut inner = list(&mut ig.ids, &name, content);
            if form == 19 {
                inner.delim = 10;
            }
            Some(list(&mut ig.ids, e, vec![inner]))
        }
        8 => {
            let a = word(&mut ig.ids, &name);
            let b = word(&mut ig.ids, "other");
            Some(list(&mut ig.ids, e, vec![a, b]))
        }
        9 => Some(list(&mut ig.ids, e, vec![])),
        10 => {
            let a = word(&mut ig.ids, &name);
            let b = word(&mut ig.ids, &name);
            let c = nv(&mut ig.ids, &name, int_lit(rng, 1));
            Some(list(&mut ig.ids, e, vec![a, b, c]))
        }
        11 => {
            let l = literal(&mut ig.ids, str_lit(rng, &name));
            Some(list(&mut ig.ids, e, vec![l]))
        }
        12 => Some(nv(&mut ig.ids, e, int_lit(rng, 5))),
        13 => Some(nv(&mut ig.ids, e, Lit::Bool(true))),
        14 => Some(word(&mut ig.ids, e)),
        15 => Some(nv(&mut ig.ids, e, Lit::Expr(name.clone()))),
        16 => {
            direct = Some((
                "from_string",
                name.clone(),
                match it.enum_from_string(r, &name) {
                    Ok(v) => Outcome::Ok(v),
                    Err(l) => Outcome::Err(l),
                },
            ));
            None
        }
        17 => {
            direct = Some((
                "from_word",
                String::new(),
                match it.from_word_value(r) {
                    Some(v) => Outcome::Ok(v),
                    None => Outcome::Err(vec![Leaf {
                        kind: LeafKind::BadValue,
                        path: vec![],
                        at: Where::Nowhere,
                        name: String::new(),
                        alts: vec![],
                    }]),
                },
            ));
            None
        }
        _ => {
            let v = if r.from_none { json!({"some": it.from_none_value(r)}) } else { Value::Null };
            direct = Some(("from_none", String::new(), Outcome::Ok(v)));
            None
        }
    };
    let shape = format!("enum-grid/form{form}/{}", match var.map(|v| (&v.body, v.skip)) {
        Some((_, true)) => "skipped",
        Some((VBody::Unit, _)) => "unit",
        Some((VBody::Newtype(_), _)) => "newtype",
        Some((VBody::Struct(_), _)) => "struct",
        None => "not-a-variant",
    });
    if let Some((entry, src, expected)) = direct {
        return vec![Case {
            entry,
            src,
            expected,
            ranges: Ranges::default(),
            attr_ranges: vec![],
            mistakes: vec![],
            shape,
            group: None,
                    items: None,
        }];
    }
    let item = item.unwrap();
    let mut ranges = Ranges::default();
    let mut src = String::new();
    render_item(&item, &mut src, &mut ranges, rng.below(6) as u8);
    let expected = match it.recv_from_meta(r, &item) {
        Ok(v) => Outcome::Ok(v),
        Err(l) => Outcome::Err(l),
    };
    vec![Case {
        entry: "from_meta",
        src,
        expected,
        ranges,
        attr_ranges: vec![],
        mistakes: vec![],
        shape,
        group: None,
                    items: None,
    }]
}

/// C07: a token-level mutation of a rendered input (stays lexically valid; may stop being meta syntax)
fn mutate_tokens(src: &str, rng: &mut Rng) -> Option<String> {
    use proc_macro2::{Delimiter, Group, TokenStream, TokenTree};
    let ts: TokenStream = syn::parse_str(src).ok()?;
    fn soup(rng: &mut Rng) -> Vec<TokenTree> {
        let pool = ["=", ",", "!!!", "1 2", "::", "\"s\"", "99999999999999999999999999999999999999999999", "1e999", "b\"x\"", "'c'", "-", "fn", "self", "r#type", "(a, b)", "[1; 2]", "{ x }", "true", "a::b::<C>", "|x| x", "..", "?", "#", "-1.5e-300", "0xffff_ffff_ffff_ffff_ffff", "c\"c\""];
        let n = rng.range(1, 3);
        let mut out = vec![];
        for _ in 0..n {
            if let Ok(t) = syn::parse_str::<TokenStream>(*rng.pick(&pool)) {
                out.extend(t);
            }
        }
        out
    }
    fn walk(ts: TokenStream, rng: &mut Rng, budget: &mut i32, depth: usize) -> TokenStream {
        let mut v: Vec<TokenTree> = ts.into_iter().collect();
        // recurse into a random group first
        let groups: Vec<usize> = v.iter().enumerate().filter(|(_, t)| matches!(t, TokenTree::Group(_))).map(|(i, _)| i).collect();
        if !groups.is_empty() && rng.chance(3, 5) && depth < 6 {
            let gi = *rng.pick(&groups);
            if let TokenTree::Group(g) = &v[gi] {
                let inner = walk(g.stream(), rng, budget, depth + 1);
                let delim = if rng.chance(1, 10) { *rng.pick(&[Delimiter::Parenthesis, Delimiter::Bracket, Delimiter::Brace]) } else { g.delimiter() };
                v[gi] = TokenTree::Group(Group::new(delim, inner));
            }
            if *budget <= 0 {
                return v.into_iter().collect();
            }
        }
        *budget -= 1;
        match rng.below(6) {
            0 if !v.is_empty() => {
                let i = rng.below(v.len());
                v.remove(i);
            }
            1 => {
                let i = rng.below(v.len() + 1);
                for (k, t) in soup(rng).into_iter().enumerate() {
                    v.insert((i + k).min(v.len()), t);
                }
            }
            2 if !v.is_empty() => {
                let i = rng.below(v.len());
                let t = v[i].clone();
                v.insert(i, t);
            }
            3 if !v.is_empty() => {
                let i = rng.below(v.len());
                let s = soup(rng);
                v.splice(i..i + 1, s);
            }
            4 => {
                // deep nesting
                let mut inner: TokenStream = syn::parse_str("a").unwrap();
                for _ in 0..rng.range(20, 100) {
                    let mut t: TokenStream = syn::parse_str("a").unwrap();
                    t.extend([TokenTree::Group(Group::new(Delimiter::Parenthesis, inner))]);
                    inner = t;
                }
                let i = rng.below(v.len() + 1);
                for (k, t) in inner.into_iter().enumerate() {
                    v.insert((i + k).min(v.len()), t);
                }
            }
            _ => v.reverse(),
        }
        v.into_iter().collect()
    }
    let mut budget = 1 + rng.below(3) as i32;
    Some(walk(ts, rng, &mut budget, 0).to_string())
}

/// reply with everything that legitimately differs between renderings removed
fn stripped(reply: &Value) -> String {
    if let Some(ok) = reply.get("ok") {
        // the forwarded attributes legitimately differ between renderings; they sit one level
        // down, two under a newtype wrapper
        fn drop_attrs(v: &mut Value, depth: usize) {
            if let Some(o) = v.as_object_mut() {
                o.remove("@attrs");
                if depth > 0 {
                    for (_, inner) in o.iter_mut() {
                        drop_attrs(inner, depth - 1);
                    }
                }
            }
        }
        let mut v = ok.clone();
        drop_attrs(&mut v, 2);
        return format!("ok:{v}");
    }
    if let Some(e) = reply.get("err") {
        let leaves: Vec<String> = e["leaves"].as_array().cloned().unwrap_or_default().iter().map(|l| l["msg"].as_str().unwrap_or("").to_string()).collect();
        return format!("err:{leaves:?}");
    }
    reply.to_string()
}

fn run_corpus(args: &Args, prop: &'static str, plan: Plan) -> i32 {
    let started = Instant::now();
    let programs = args.budget(plan.programs.0, plan.programs.1) as usize;
    let per_program = args.budget(plan.per_program.0, plan.per_program.1) as usize;
    let shards = 16;
    let case_fn = plan.cases;
    let adopt = plan.adopt;
    let suggestions = plan.suggestions;
    let built = build_corpus(plan.tag, args.seed, plan.profile.clone(), programs, shards, false, suggestions);
    let mut total = Collector::new();
    total.max_samples = 8;
    // compile failures are C20's subject; here they only shrink the corpus
    let mut broken: Vec<usize> = vec![];
    for e in &built.compile_errors {
        if let Some(sh) = built.corpus.shards.iter().find(|s| s.name == e.shard) {
            if let Some(id) = drive::recv_at_line(&sh.source, e.line) {
                broken.push(id);
            }
        }
        total.count("corpus.compile_errors");
    }
    let recvs = &built.recvs;
    let results: Vec<Collector> = std::thread::scope(|s| {
        let hs: Vec<_> = built
            .corpus
            .shards
            .iter()
            .filter(|sh| sh.built)
            .map(|sh| {
                let target = built.target.clone();
                let seed = args.seed;
                s.spawn(move || {
                    let mut c = Collector::new();
                    let mut drv = match drive::Driver::spawn(&target, &sh.name) {
                        Ok(d) => d,
                        Err(e) => {
                            c.count("driver.spawn_failed");
                            let _ = e;
                            return c;
                        }
                    };
                    for id in &sh.ids {
                        // a newtype wrapper of an element-level receiver delegates everything: inputs and
                        // expectations are the inner receiver's, the call goes to the wrapper
                        let top = &recvs[*id];
                        let (r, wrapper) = match &top.shape {
                            Shape::Newtype(Ty::Recv(inner)) if top.tr.element_level() => (&recvs[*inner], Some(top)),
                            _ => (top, None),
                        };
                        if wrapper.is_some() {
                            c.count("programs.newtype-wrapper");
                        }
                        WRAPPER.with(|w| w.set(wrapper.map(|w| w.id)));
                        c.count("programs");
                        c.count(&format!("programs.{:?}{}", r.tr, if r.is_enum() { "-enum" } else { "" }));
                        let mut rng = Rng::for_stream(seed, 1000 + *id as u64, 0);
                        let mut rsrc: Option<String> = None;
                        for iter in 0..per_program {
                          let mut group_replies: Vec<(u64, String, String)> = vec![];
                          for mut case in case_fn(recvs, r, &mut rng, prop, iter) {
                            if let (Some(w), Outcome::Ok(v)) = (wrapper, &case.expected) {
                                case.expected = Outcome::Ok(values::newtype_value(w, v.clone()));
                            }
                            c.eval();
                            let reply = match drv.call(*id, case.entry, &case.src) {
                                drive::Reply::Value(v) => v,
                                drive::Reply::Died(st) => {
                                    let src = rsrc.get_or_insert_with(|| recv_source(recvs, *id)).clone();
                                    if prop == "C07" {
                                        c.violation(format!("C07:driver-died"), format!("the receiver process died ({st}) on `{}`", case.src), json!({"receiver": src, "entry": case.entry, "input": case.src}));
                                    }
                                    match drive::Driver::spawn(&target, &sh.name) {
                                        Ok(d) => drv = d,
                                        Err(_) => return c,
                                    }
                                    continue;
                                }
                            };
                            let obs = parse_reply(&reply);
                            if prop == "C07" {
                                // hostile variants of the same input: only totality is judged
                                for _ in 0..2 {
                                    let Some(hsrc) = mutate_tokens(&case.src, &mut rng) else { continue };
                                    c.eval();
                                    match drv.call(*id, case.entry, &hsrc) {
                                        drive::Reply::Value(v) => match parse_reply(&v) {
                                            Observed::Panic { msg, at } => {
                                                let class = if at.contains("shard") || !at.contains('/') { format!("panic:generated-code:{}", msg.split_whitespace().take(5).collect::<Vec<_>>().join("_")) } else { format!("panic:{}", vfcommon::short_loc(&at)) };
                                                let src = rsrc.get_or_insert_with(|| recv_source(recvs, *id)).clone();
                                                c.violation(format!("C07:{class}"), format!("{} panicked on `{hsrc}`: {msg} at {at}", r.name()), json!({"receiver": src, "entry": case.entry, "input": hsrc}));
                                            }
                                            Observed::Unparsed(_) => c.count("hostile.not_parseable_by_syn"),
                                            Observed::Ok(_) => {
                                                c.count("hostile.ok");
                                                c.nontrivial(&(*id, "hostile-ok", hsrc.len() % 97));
                                            }
                                            Observed::Err { leaves, .. } => {
                                                c.count("hostile.err");
                                                c.nontrivial(&(*id, "hostile-err", leaves.iter().map(|l| l.family).collect::<String>()));
                                            }
                                            Observed::Died(_) => {}
                                        },
                                        drive::Reply::Died(st) => {
                                            let src = rsrc.get_or_insert_with(|| recv_source(recvs, *id)).clone();
                                            c.violation("C07:driver-died", format!("the receiver process died ({st}) on `{hsrc}`"), json!({"receiver": src, "entry": case.entry, "input": hsrc}));
                                            match drive::Driver::spawn(&target, &sh.name) {
                                                Ok(d) => drv = d,
                                                Err(_) => return c,
                                            }
                                        }
                                    }
                                }
                            }
                            if let Observed::Unparsed(_) = obs {
                                c.discarded += 1;
                                continue;
                            }
                            if let Some(g) = case.group {
                                group_replies.push((g, stripped(&reply), case.src.clone()));
                            }
                            let j = judge(&case.expected, &obs, &case.ranges, &case.attr_ranges, suggestions);
                            for f in &j.findings {
                                if f.prop != prop && !adopt.contains(&f.prop) {
                                    c.count(&format!("other_aspect.{}", f.prop));
                                    continue;
                                }
                                let src = rsrc.get_or_insert_with(|| recv_source(recvs, *id)).clone();
                                c.violation(format!("{}:{}", prop, f.class), format!("{} on `{}`: {}", r.name(), case.src, f.what), witness(&src, case.entry, &case.src, &case.expected, &reply));
                            }
                            // C17, soundness by execution: the suggested name, put in place of the rejected
                            // one, must be accepted at that very position
                            if prop == "C17" {
                                if let (Some(items), Observed::Err { leaves, .. }, Outcome::Err(exp)) = (&case.items, &obs, &case.expected) {
                                    for e in exp.iter().filter(|e| e.kind == LeafKind::Unknown && e.path.is_empty()) {
                                        let Where::Item(item_id) = e.at else { continue };
                                        let Some(o) = leaves.iter().find(|o| o.family == 'U' && o.path.is_empty() && o.named.as_deref() == Some(e.name.as_str()) && o.suggestion.is_some()) else { continue };
                                        let y = o.suggestion.clone().unwrap();
                                        let mut items2 = items.clone();
                                        fn rename(items: &mut [Item], id: usize, to: &str) {
                                            for it in items.iter_mut() {
                                                if it.id == id {
                                                    it.name = to.to_string();
                                                }
                                                if let Kind::List(inner) = &mut it.kind {
                                                    rename(inner, id, to);
                                                }
                                            }
                                        }
                                        rename(&mut items2, item_id, &y);
                                        let mut src2 = String::new();
                                        let mut rg = Ranges::default();
                                        render_items(&items2, &mut src2, &mut rg, 0, false);
                                        if let drive::Reply::Value(v2) = drv.call(*id, "from_list", &src2) {
                                            c.count("suggestions_resent");
                                            // the substituted item must not be rejected as unknown: at the top level (where
                                            // it was written) there is no more unknown `y` than there was before — the same
                                            // name may well be unknown, legitimately, somewhere deeper
                                            let before = leaves.iter().filter(|l| l.family == 'U' && l.path.is_empty() && l.named.as_deref() == Some(y.as_str())).count();
                                            let still_unknown = match parse_reply(&v2) {
                                                Observed::Err { leaves, .. } => leaves.iter().filter(|l| l.family == 'U' && l.path.is_empty() && l.named.as_deref() == Some(y.as_str())).count() > before,
                                                _ => false,
                                            };
                                            if still_unknown {
                                                let src = rsrc.get_or_insert_with(|| recv_source(recvs, *id)).clone();
                                                c.violation("C17:suggested-name-not-accepted", format!("{}: `{}` suggests `{y}` for `{}`, but `{src2}` still reports `{y}` as unknown", r.name(), case.src, e.name), json!({"receiver": src, "input": case.src, "resent": src2, "reply": v2}));
                                            }
                                        }
                                    }
                                }
                            }
                            let ok = j.expected_ok;
                            c.count(if ok { "inputs.mistake_free" } else { "inputs.with_mistakes" });
                            for m in &case.mistakes {
                                c.count(&format!("injected.{m}"));
                            }
                            if let Outcome::Err(l) = &case.expected {
                                for leaf in l {
                                    c.count(&format!("expected_leaf.{:?}.depth{}", leaf.kind, leaf.path.len().min(3)));
                                }
                                c.count(&format!("expected_leaves.{}", l.len().min(8)));
                            }
                            let relevant = match prop {
                                "C01" => ok,
                                "C02" | "C03" => !ok,
                                "C17" => matches!(&case.expected, Outcome::Err(l) if l.iter().any(|x| x.kind == LeafKind::Unknown)),
                                _ => true,
                            };
                            if relevant {
                                let leaf_kinds: Vec<String> = match &case.expected {
                                    Outcome::Ok(_) => vec![],
                                    Outcome::Err(l) => {
                                        let mut k: Vec<String> = l.iter().map(|x| format!("{:?}@{}", x.kind, x.path.len())).collect();
                                        k.sort();
                                        k
                                    }
                                };
                                c.nontrivial(&(*id, case.shape.clone(), leaf_kinds, j.observed_ok));
                                if c.samples.len() < 2 && c.evaluations % 37 == 0 {
                                    let src = rsrc.get_or_insert_with(|| recv_source(recvs, *id)).clone();
                                    c.sample(|| witness(&src, case.entry, &case.src, &case.expected, &reply));
                                }
                            }
                          }
                          // renderings of one item sequence must give the identical value or identical errors
                          for i in 1..group_replies.len() {
                              if group_replies[i].0 == group_replies[0].0 && group_replies[i].1 != group_replies[0].1 {
                                  let src = rsrc.get_or_insert_with(|| recv_source(recvs, *id)).clone();
                                  c.violation(format!("{prop}:partition-changes-result"), format!("{}: `{}` gives {} but the single-attribute form `{}` gives {}", r.name(), group_replies[i].2, group_replies[i].1, group_replies[0].2, group_replies[0].1), json!({"receiver": src, "input": group_replies[i].2, "base_input": group_replies[0].2}));
                              }
                          }
                        }
                    }
                    c
                })
            })
            .collect();
        hs.into_iter().map(|h| h.join().unwrap_or_else(|_| vfcommon::die("shard worker panicked"))).collect()
    });
    for c in results {
        total.merge(c);
    }
    total.count_n("corpus.receivers_total", built.recvs.len() as u64);
    total.count_n("corpus.broken_programs", broken.len() as u64);
    // a shard that does not build takes all its programs out of the run: one or two can be the
    // subject's own doing (C20 reports those), more than a quarter means the run saw too little to
    // be called "held" — most likely the emitter itself wrote something that does not compile
    let n_shards = built.corpus.shards.len();
    let n_built = built.corpus.shards.iter().filter(|s| s.built).count();
    total.count_n("corpus.shards_built", n_built as u64);
    total.count_n("corpus.shards_not_built", (n_shards - n_built) as u64);
    if n_built * 4 < n_shards * 3 && total.violations.is_empty() {
        let first = built.compile_errors.first().map(|e| format!("{} line {}: [{}] {}", e.shard, e.line, e.code, e.message)).unwrap_or_default();
        vfcommon::die(&format!("only {n_built} of {n_shards} generated crates compile (first error: {first}); too little was observed"));
    }
    let feat = feature_table(&built.recvs);
    let mut extra = serde_json::Map::new();
    extra.insert("programs".into(), json!(built.tops.len()));
    extra.insert("spec_features".into(), feat);
    conclude(
        args,
        started,
        total,
        Verdict {
            level: "exploration",
            rule: rule_text(prop),
            assumptions: vec![
                "the reference interpreter (vf/corpus/src/interp.rs) encodes the documented semantics (DESIGN Appendix A); it never reads darling's output".into(),
                "rustc compiles the generated crates faithfully; programs that fail to compile are excluded here and reported by C20".into(),
            ],
            min_nontrivial: plan.min_nontrivial,
            exhaustive: None,
            extra,
        },
    )
}

fn rule_text(prop: &str) -> String {
    let common = "receiver programs drawn from the derive option space (6 traits; rename / rename_all x 6 rules; field and container defaults; skip, multiple, flatten, with path|closure, map|and_then at both levels, allow_unknown_fields, from_ident, from_word, from_none; nested struct / enum / boxed receivers and maps to depth 2), compiled as real crates against /repo; inputs are trees rendered to text with recorded byte ranges (literal spellings, spacing, delimiters, attribute partitions and foreign attributes vary); a reference interpreter predicts the value or the exact set of error leaves.";
    match prop {
        "C01" => format!("{common} C01: mistake-free inputs; the dumped value must equal the predicted value field by field (tagged defaults / transforms make the source of every value visible). Distinct = (receiver, input shape, accepted)."),
        "C02" => format!("{common} C02: 0..8 injected mistakes (unknown / repeated name, bare literal, removed item, bad value, wrong form, name-value attribute) at any depth; Ok iff no mistake, len == number of predicted leaves, bijection on (path, kind family, named item). Distinct = (receiver, input shape, multiset of predicted leaf kinds and depths)."),
        "C03" => format!("{common} C03: same inputs as C02; every matched leaf's span must lie inside the predicted item / value / name range, unspanned only where nothing encloses, and then the diagnostic renders the path."),
        "C07" => format!("{common} C07: every reply must be ok or err; a panic reply or a dead driver is the violation."),
        "C17" => format!("{common} C17: unknown names near valid / skipped / flatten-member / parent names; suggestion present iff best Jaro-Winkler score over the names valid at that position > 0.8, and it is a maximal candidate."),
        _ => common.to_string(),
    }
}

fn feature_table(recvs: &[Recv]) -> Value {
    let mut m: std::collections::BTreeMap<String, u64> = Default::default();
    let mut bump = |k: &str| *m.entry(k.to_string()).or_insert(0) += 1;
    for r in recvs {
        bump(&format!("trait.{:?}", r.tr));
        if r.rename_all.is_some() {
            bump("rename_all");
        }
        match r.cdefault {
            Def::Trait => bump("container.default"),
            Def::Func => bump("container.default_fn"),
            Def::None => {}
        }
        if r.from_ident {
            bump("from_ident");
        }
        match r.post {
            Post::Map => bump("container.map"),
            Post::AndThen => bump("container.and_then"),
            Post::None => {}
        }
        if r.allow_unknown {
            bump("allow_unknown_fields");
        }
        if r.from_word {
            bump("from_word");
        }
        if r.from_none {
            bump("from_none");
        }
        let fields: Vec<&Field> = match &r.shape {
            Shape::Struct(fs) => fs.iter().collect(),
            Shape::Unit => {
                bump("unit_struct");
                vec![]
            }
            Shape::Newtype(_) => {
                bump("newtype_struct");
                vec![]
            }
            Shape::Enum(vs) => {
                bump("enum");
                vs.iter()
                    .flat_map(|v| {
                        if v.skip {
                            bump("variant.skip");
                        }
                        if v.word_false {
                            bump("variant.word=false");
                        }
                        if v.word {
                            bump("variant.word");
                        }
                        if v.rename.is_some() {
                            bump("variant.rename");
                        }
                        match &v.body {
                            VBody::Unit => bump("variant.unit"),
                            VBody::Newtype(_) => bump("variant.newtype"),
                            VBody::Struct(_) => bump("variant.struct"),
                        }
                        match &v.body {
                            VBody::Struct(fs) => fs.iter().collect::<Vec<_>>(),
                            _ => vec![],
                        }
                    })
                    .collect()
            }
        };
        for f in fields {
            if f.rename.is_some() {
                bump("field.rename");
            }
            match f.default {
                Def::Trait => bump("field.default"),
                Def::Func => bump("field.default_fn"),
                Def::None => {}
            }
            if f.skip {
                bump("field.skip");
            }
            if f.multiple {
                bump("field.multiple");
            }
            if f.flatten {
                bump("field.flatten");
            }
            match f.with {
                With::Path => bump("field.with_path"),
                With::Closure => bump("field.with_closure"),
                With::None => {}
            }
            match f.post {
                Post::Map => bump("field.map"),
                Post::AndThen => bump("field.and_then"),
                Post::None => {}
            }
            match &f.ty {
                Ty::Recv(_) | Ty::BoxRecv(_) => bump("field.nested_receiver"),
                Ty::Map(_) => bump("field.map_type"),
                Ty::Opt(_) => bump("field.option"),
                _ => {}
            }
        }
    }
    // pairwise coverage of the option space: field option x field option (same field) and
    // field option x container option / trait
    let mut pairs: std::collections::BTreeMap<(String, String), u64> = Default::default();
    let field_labels = |f: &Field| -> Vec<String> {
        let mut l = vec![];
        if f.rename.is_some() {
            l.push("rename".to_string());
        }
        match f.default {
            Def::Trait => l.push("default".into()),
            Def::Func => l.push("default_fn".into()),
            Def::None => {}
        }
        if f.skip {
            l.push("skip".into());
        }
        if f.multiple {
            l.push("multiple".into());
        }
        if f.flatten {
            l.push("flatten".into());
        }
        match f.with {
            With::Path => l.push("with_path".into()),
            With::Closure => l.push("with_closure".into()),
            With::None => {}
        }
        match f.post {
            Post::Map => l.push("map".into()),
            Post::AndThen => l.push("and_then".into()),
            Post::None => {}
        }
        l
    };
    for r in recvs {
        let mut cl = vec![format!("trait:{:?}", r.tr)];
        if let Some(rule) = r.rename_all {
            cl.push(format!("rename_all:{}", rule.text()));
        }
        match r.cdefault {
            Def::Trait => cl.push("c.default".into()),
            Def::Func => cl.push("c.default_fn".into()),
            Def::None => {}
        }
        match r.post {
            Post::Map => cl.push("c.map".into()),
            Post::AndThen => cl.push("c.and_then".into()),
            Post::None => {}
        }
        if r.allow_unknown {
            cl.push("c.allow_unknown_fields".into());
        }
        if r.from_ident {
            cl.push("c.from_ident".into());
        }
        let fields: Vec<&Field> = match &r.shape {
            Shape::Struct(fs) => fs.iter().collect(),
            Shape::Enum(vs) => vs
                .iter()
                .flat_map(|v| match &v.body {
                    VBody::Struct(fs) => fs.iter().collect::<Vec<_>>(),
                    _ => vec![],
                })
                .collect(),
            _ => vec![],
        };
        for f in fields {
            let fl = field_labels(f);
            for (i, a) in fl.iter().enumerate() {
                for b in fl.iter().skip(i + 1) {
                    *pairs.entry((a.clone(), b.clone())).or_insert(0) += 1;
                }
                for c in &cl {
                    *pairs.entry((a.clone(), c.clone())).or_insert(0) += 1;
                }
            }
        }
    }
    let min = pairs.values().min().copied().unwrap_or(0);
    let rare: Vec<String> = pairs.iter().filter(|(_, n)| **n < 3).map(|((a, b), n)| format!("{a}+{b}={n}")).take(40).collect();
    json!({"features": m, "option_pairs_hit": pairs.len(), "min_pair_count": min, "pairs_hit_fewer_than_3_times": rare})
}

fn main() {
    let args = Args::parse();
    vfcommon::install_quiet_panic_hook();
    let profile = args.extra.get("profile").cloned();
    let code = match args.prop.as_str() {
        // the aspect properties can be run over any plan: ./check lists which plans each one uses
        p @ ("C01" | "C02" | "C03" | "C07" | "C17") => {
            let prop: &'static str = match p {
                "C01" => "C01",
                "C02" => "C02",
                "C03" => "C03",
                "C07" => "C07",
                _ => "C17",
            };
            let mut plan = match profile.as_deref() {
                Some("element") => element_plan(),
                Some("enum") => enum_plan(),
                Some("magic") => magic_plan(),
                Some("suggest") => suggest_plan(),
                Some("nosuggest") => Plan {
                    tag: "nosuggest",
                    profile: profile_general(),
                    programs: (112, 700),
                    per_program: (80, 300),
                    cases: general_cases,
                    min_nontrivial: 200,
                    adopt: &[],
                    suggestions: false,
                },
                _ => general_plan(),
            };
            // with the feature off everything but the suggestion must stay identical
            plan.adopt = if profile.as_deref() == Some("nosuggest") { &["C01", "C02"] } else { &[] };
            run_corpus(&args, prop, plan)
        }
        "C20" => run_c20(&args),
        "C16" => run_corpus(&args, "C16", magic_plan()),
        "C18" => {
            let mut p = magic_plan();
            p.adopt = &["C01", "C02", "C07"];
            run_corpus(&args, "C18", p)
        }
        "C08" => run_corpus(
            &args,
            "C08",
            Plan {
                tag: "element",
                profile: profile_element(),
                programs: (160, 1200),
                per_program: (30, 120),
                cases: partition_cases,
                min_nontrivial: 200,
                adopt: &["C01", "C02"],
                suggestions: true,
            },
        ),
        "C09" => run_corpus(
            &args,
            "C09",
            Plan {
                tag: "enum",
                profile: profile_enum(),
                programs: (96, 900),
                per_program: (19 * 9, 19 * 9 * 2),
                cases: enum_grid_cases,
                min_nontrivial: 200,
                adopt: &["C01", "C02"],
                suggestions: true,
            },
        ),
        other => vfcommon::die(&format!("corpus: no monitor for {other}")),
    };
    std::process::exit(code);
}
