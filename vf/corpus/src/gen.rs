//! Generation of input trees: mistake-free (as intended by the generator; the interpreter has the
//! last word) inputs for a receiver, mutations that inject the mistake kinds of C02, and the
//! element-level wrapping (attributes, partitions, foreign attributes).

use crate::input::*;
use crate::spec::*;
use vfcommon::Rng;

pub struct InputGen<'a> {
    pub recvs: &'a [Recv],
    pub ids: Ids,
}

const STRINGS: [&str; 12] = ["hello", "world", "a b", "", "x", "true", "7", "reject", "creject", "with \"quotes\"", "snake_case", "ünï"];

impl<'a> InputGen<'a> {
    pub fn new(recvs: &'a [Recv]) -> Self {
        InputGen {
            recvs,
            ids: Ids::default(),
        }
    }

    pub fn scalar_item(&mut self, rng: &mut Rng, name: &str, sc: Sc) -> Item {
        match sc {
            Sc::Bool => match rng.below(5) {
                0 => word(&mut self.ids, name),
                1 => nv(&mut self.ids, name, Lit::Bool(true)),
                2 => nv(&mut self.ids, name, Lit::Bool(false)),
                3 => nv(&mut self.ids, name, str_lit(rng, "true")),
                _ => nv(&mut self.ids, name, str_lit(rng, "false")),
            },
            Sc::U8 => {
                let v = *rng.pick(&[0u64, 1, 7, 66, 100, 200, 255, 64, 128]);
                if rng.chance(1, 4) {
                    nv(&mut self.ids, name, str_lit(rng, &v.to_string()))
                } else {
                    nv(&mut self.ids, name, int_lit(rng, v))
                }
            }
            Sc::I64 => {
                let v = *rng.pick(&[0i64, 5, 42, 666, 777, 1000, 123456, 9001, 7000, -5, -1000]);
                if v < 0 || rng.chance(1, 4) {
                    nv(&mut self.ids, name, str_lit(rng, &v.to_string()))
                } else {
                    nv(&mut self.ids, name, int_lit(rng, v as u64))
                }
            }
            Sc::Str => {
                let s = *rng.pick(&STRINGS);
                nv(&mut self.ids, name, str_lit(rng, s))
            }
            Sc::Char => {
                let c = *rng.pick(&['a', 'Z', '#', '7', 'é', '\'']);
                if rng.coin() {
                    nv(&mut self.ids, name, Lit::Char(c))
                } else {
                    nv(&mut self.ids, name, str_lit(rng, &c.to_string()))
                }
            }
        }
    }

    /// an item the type should accept
    pub fn item_for(&mut self, rng: &mut Rng, name: &str, ty: &Ty, depth: usize) -> Item {
        match ty {
            Ty::Sc(sc) => self.scalar_item(rng, name, *sc),
            Ty::Opt(t) => self.item_for(rng, name, t, depth),
            Ty::Map(t) => {
                let n = rng.below(4);
                let keys = ["k1", "k2", "key_three", "a::b"];
                let mut inner = vec![];
                for k in keys.iter().take(n) {
                    inner.push(self.item_for(rng, k, t, depth + 1));
                }
                list(&mut self.ids, name, inner)
            }
            Ty::PathList => {
                let n = rng.below(4);
                let mut inner = vec![];
                for _ in 0..n {
                    let p = *rng.pick(&["alpha", "a::b", "::c", "Debug", "serde::Serialize", "r#type"]);
                    inner.push(word(&mut self.ids, p));
                }
                list(&mut self.ids, name, inner)
            }
            Ty::Bytes => {
                let n = rng.below(5);
                let vals: Vec<u64> = (0..n).map(|_| *rng.pick(&[0u64, 1, 7, 66, 100, 255, 128])).collect();
                if rng.chance(1, 5) {
                    let text = format!("[{}]", vals.iter().map(|v| v.to_string()).collect::<Vec<_>>().join(", "));
                    nv(&mut self.ids, name, str_lit(rng, &text))
                } else {
                    let elems = vals.iter().map(|v| if rng.chance(1, 4) { str_lit(rng, &v.to_string()) } else { int_lit(rng, *v) }).collect();
                    nv(&mut self.ids, name, Lit::Array(elems))
                }
            }
            Ty::Recv(id) | Ty::BoxRecv(id) => {
                let r = &self.recvs[*id];
                match &r.shape {
                    Shape::Struct(_) => {
                        let items = self.struct_items(rng, r, depth + 1);
                        list(&mut self.ids, name, items)
                    }
                    Shape::Enum(_) => self.enum_item(rng, name, r, depth + 1),
                    Shape::Unit => word(&mut self.ids, name),
                    Shape::Newtype(t) => self.item_for(rng, name, t, depth + 1),
                }
            }
        }
    }

    pub fn enum_item(&mut self, rng: &mut Rng, name: &str, r: &Recv, depth: usize) -> Item {
        let Shape::Enum(vs) = &r.shape else { unreachable!() };
        let live: Vec<&Variant> = vs.iter().filter(|v| !v.skip && addressable(&variant_name(r, v))).collect();
        if live.is_empty() {
            return word(&mut self.ids, name);
        }
        let v = *rng.pick(&live);
        let vn = variant_name(r, v);
        match &v.body {
            VBody::Unit => {
                if rng.coin() {
                    nv(&mut self.ids, name, str_lit(rng, &vn))
                } else {
                    let inner = word(&mut self.ids, &spelled(rng, &vn));
                    list(&mut self.ids, name, vec![inner])
                }
            }
            VBody::Newtype(t) => {
                let sp = spelled(rng, &vn);
                let inner = self.item_for(rng, &sp, t, depth);
                list(&mut self.ids, name, vec![inner])
            }
            VBody::Struct(fs) => {
                let items = self.fields_items(rng, r, fs, depth);
                let inner = list(&mut self.ids, &spelled(rng, &vn), items);
                list(&mut self.ids, name, vec![inner])
            }
        }
    }

    pub fn struct_items(&mut self, rng: &mut Rng, r: &Recv, depth: usize) -> Vec<Item> {
        let fs: Vec<Field> = r.fields().to_vec();
        self.fields_items(rng, r, &fs, depth)
    }

    /// items for a list of fields: every required field, a random subset of the optional ones,
    /// 0..3 occurrences of `multiple` fields, the flatten member's items mixed in, random order
    pub fn fields_items(&mut self, rng: &mut Rng, r: &Recv, fs: &[Field], depth: usize) -> Vec<Item> {
        let mut items = vec![];
        for f in fs {
            if f.skip {
                continue;
            }
            if f.flatten {
                match &f.ty {
                    Ty::Recv(id) | Ty::BoxRecv(id) => {
                        let inner = &self.recvs[*id];
                        if depth < 4 {
                            items.extend(self.struct_items(rng, inner, depth + 1));
                        }
                    }
                    Ty::Map(t) => {
                        for k in ["extra_one", "extra_two"] {
                            if rng.coin() {
                                items.push(self.item_for(rng, k, t, depth + 1));
                            }
                        }
                    }
                    _ => {}
                }
                continue;
            }
            let name = field_name(r, f);
            if !addressable(&name) {
                continue;
            }
            let optional = f.default != Def::None || r.cdefault != Def::None || r.from_ident || matches!(f.ty, Ty::Opt(_)) || f.multiple || self.has_from_none(&f.ty);
            if f.multiple {
                for _ in 0..rng.below(4) {
                    let sp = spelled(rng, &name);
                    items.push(self.item_for(rng, &sp, &f.ty, depth));
                }
            } else if !optional || rng.chance(2, 3) {
                let sp = spelled(rng, &name);
                items.push(self.item_for(rng, &sp, &f.ty, depth));
            }
        }
        rng.shuffle(&mut items);
        items
    }

    fn has_from_none(&self, ty: &Ty) -> bool {
        match ty {
            Ty::Opt(_) => true,
            Ty::Recv(id) | Ty::BoxRecv(id) => self.recvs[*id].from_none || (self.recvs[*id].inner_default != Def::None && !self.recvs[*id].inner_skip),
            _ => false,
        }
    }

    // ------------------------------------------------------------ mistakes

    /// Inject one mistake somewhere in the tree (any depth). Returns the kind injected, if any.
    pub fn inject(&mut self, rng: &mut Rng, items: &mut Vec<Item>, r: &'a Recv, depth: usize) -> Option<&'static str> {
        self.inject_ctx(rng, items, Ctx::Recv(r), depth, &[])
    }

    /// `outer`: names valid in the enclosing receivers (an unknown name close to one of *those* is
    /// what tells a scoped suggestion from an unscoped one)
    fn inject_ctx(&mut self, rng: &mut Rng, items: &mut Vec<Item>, ctx: Ctx<'a>, depth: usize, outer: &[String]) -> Option<&'static str> {
        // descend into a nested list with some probability
        let nested: Vec<usize> = items.iter().enumerate().filter(|(_, i)| matches!(&i.kind, Kind::List(_))).map(|(k, _)| k).collect();
        if !nested.is_empty() && depth < 4 && rng.chance(2, 5) {
            let k = *rng.pick(&nested);
            let child = self.child_ctx(&ctx, &items[k]);
            if let (Kind::List(inner), Some(cc)) = (&mut items[k].kind, child) {
                let mut names: Vec<String> = outer.to_vec();
                names.extend(ctx_names(&ctx));
                return self.inject_ctx(rng, inner, cc, depth + 1, &names);
            }
        }
        if let Ctx::Map = ctx {
            return match rng.below(4) {
                0 => {
                    let it = literal(&mut self.ids, Lit::Str { value: "stray".into(), raw: false });
                    let pos = rng.below(items.len() + 1);
                    items.insert(pos, it);
                    Some("map-literal")
                }
                1 if !items.is_empty() => {
                    let k = rng.below(items.len());
                    let mut dup = items[k].clone();
                    self.renumber(&mut dup);
                    items.push(dup);
                    Some("map-repeated-key")
                }
                _ if !items.is_empty() => {
                    let k = rng.below(items.len());
                    if matches!(items[k].kind, Kind::Literal(_)) {
                        return None;
                    }
                    items[k].kind = match rng.below(3) {
                        0 => Kind::Nv(Lit::ByteStr),
                        1 => Kind::Nv(Lit::Expr("a::b".into())),
                        _ => {
                            let a = word(&mut self.ids, "a");
                            Kind::List(vec![a])
                        }
                    };
                    Some("map-bad-value")
                }
                _ => None,
            };
        }
        let (r, names): (&Recv, Vec<String>) = match &ctx {
            Ctx::Recv(r) => (
                r,
                match &r.shape {
                    Shape::Struct(fs) => fs.iter().map(|f| field_name(r, f)).collect(),
                    Shape::Enum(vs) => vs.iter().map(|v| variant_name(r, v)).collect(),
                    _ => vec![],
                },
            ),
            Ctx::Fields(r, fs) => (r, fs.iter().map(|f| field_name(r, f)).collect()),
            Ctx::Map => unreachable!(),
        };
        let _ = r;
        let kind = rng.below(9);
        match kind {
            8 => {
                // a nested list that is not a list: the comma between its first two items is missing
                let cands: Vec<usize> = items.iter().enumerate().filter(|(_, i)| i.delim < 10 && names.contains(&name_string(&i.name)) && matches!(&i.kind, Kind::List(inner) if inner.len() >= 2 && !inner[1].name.trim_start().starts_with("::"))).map(|(k, _)| k).collect();
                // (a second item that starts with `::` would join the first one into a longer, valid path)
                if cands.is_empty() {
                    return None;
                }
                let k = *rng.pick(&cands);
                items[k].delim += 10;
                Some("garbled-nested-list")
            }
            7 => {
                // an item inside a list of bare words takes another form (path lists, word-only structs)
                let cands: Vec<usize> = items.iter().enumerate().filter(|(_, i)| matches!(&i.kind, Kind::List(inner) if !inner.is_empty() && inner.iter().all(|x| x.kind == Kind::Word))).map(|(k, _)| k).collect();
                if cands.is_empty() {
                    return None;
                }
                let k = *rng.pick(&cands);
                if let Kind::List(inner) = &mut items[k].kind {
                    let j = rng.below(inner.len());
                    inner[j].kind = match rng.below(3) {
                        0 => Kind::Nv(Lit::Int { digits: "1".into(), text: "1".into() }),
                        1 => Kind::Literal(Lit::Str { value: "stray".into(), raw: false }),
                        _ => Kind::List(vec![]),
                    };
                }
                Some("word-list-item-other-form")
            }
            0 => {
                // unknown name: a near miss of a valid name, or something unrelated
                let base = if !outer.is_empty() && rng.chance(1, 3) {
                    rng.pick(outer).clone()
                } else if !names.is_empty() && rng.chance(3, 4) {
                    rng.pick(&names).clone()
                } else {
                    "zzz".to_string()
                };
                // names that exist in the declaration but are not accepted (skipped fields / variants) are the
                // ones a wrong suggestion would come from: near misses of them, and the names themselves
                let skipped: Vec<String> = match &ctx {
                    Ctx::Recv(r) => match &r.shape {
                        Shape::Struct(fs) => fs.iter().filter(|f| f.skip).map(|f| field_name(r, f)).collect(),
                        Shape::Enum(vs) => vs.iter().filter(|v| v.skip).map(|v| variant_name(r, v)).collect(),
                        _ => vec![],
                    },
                    Ctx::Fields(r, fs) => fs.iter().filter(|f| f.skip).map(|f| field_name(r, f)).collect(),
                    Ctx::Map => vec![],
                };
                let name = if !skipped.is_empty() && rng.chance(1, 3) {
                    let b = rng.pick(&skipped).clone();
                    if rng.chance(1, 3) {
                        b
                    } else {
                        near_miss(rng, &b)
                    }
                } else if !names.is_empty() && rng.chance(1, 8) {
                    // a valid name behind another path segment (or in front of one) is not that name
                    let n = rng.pick(&names).clone();
                    // (not for names that have to be written raw: what the "unknown name" is then — with or
                    // without the `r#` — is not pinned down, and similarity scores depend on it)
                    if !addressable(&n) || written(&n) != n {
                        return None;
                    }
                    if rng.coin() {
                        format!("q::{n}")
                    } else {
                        format!("{n}::q")
                    }
                } else {
                    near_miss(rng, &base)
                };
                if !addressable(&name) {
                    return None;
                }
                let it = match rng.below(3) {
                    0 => word(&mut self.ids, &name),
                    1 => nv(&mut self.ids, &name, Lit::Str { value: "v".into(), raw: false }),
                    _ => {
                        let inner = word(&mut self.ids, "q");
                        list(&mut self.ids, &name, vec![inner])
                    }
                };
                let pos = rng.below(items.len() + 1);
                items.insert(pos, it);
                Some("unknown-name")
            }
            1 => {
                if items.is_empty() {
                    return None;
                }
                let k = rng.below(items.len());
                let mut dup = items[k].clone();
                self.renumber(&mut dup);
                let pos = rng.below(items.len() + 1);
                items.insert(pos, dup);
                Some("repeated-name")
            }
            2 => {
                let lit = match rng.below(4) {
                    0 => Lit::Str { value: "stray".into(), raw: false },
                    1 => Lit::Int { digits: "9".into(), text: "9".into() },
                    2 => Lit::Bool(true),
                    _ => Lit::Char('x'),
                };
                let it = literal(&mut self.ids, lit);
                let pos = rng.below(items.len() + 1);
                items.insert(pos, it);
                Some("bare-literal")
            }
            3 => {
                if items.is_empty() {
                    return None;
                }
                let k = rng.below(items.len());
                items.remove(k);
                Some("item-removed")
            }
            4 | 5 => {
                // a value the target rejects
                let cands: Vec<usize> = items.iter().enumerate().filter(|(_, i)| matches!(i.kind, Kind::Nv(_) | Kind::Word)).map(|(k, _)| k).collect();
                if cands.is_empty() {
                    return None;
                }
                let k = *rng.pick(&cands);
                // one bad element inside an array value
                if let Kind::Nv(Lit::Array(elems)) = &mut items[k].kind {
                    if !elems.is_empty() && rng.chance(2, 3) {
                        let j = rng.below(elems.len());
                        elems[j] = match rng.below(5) {
                            0 => Lit::Str { value: "x".into(), raw: false },
                            1 => Lit::Int { digits: "300".into(), text: "300".into() },
                            2 => Lit::Char('c'),
                            3 => Lit::Float { text: "1.5".into() },
                            _ => Lit::Expr("a::b".into()),
                        };
                        return Some("bad-array-element");
                    }
                }
                let bad = match rng.below(8) {
                    7 => Kind::Nv(Lit::Array(vec![Lit::Int { digits: "1".into(), text: "1".into() }])),
                    0 => Kind::Nv(Lit::Int { digits: "300".into(), text: "300".into() }),
                    1 => Kind::Nv(Lit::Str { value: "not a number".into(), raw: false }),
                    2 => Kind::Nv(Lit::Float { text: "1.5".into() }),
                    3 => Kind::Nv(Lit::ByteStr),
                    4 => Kind::Nv(Lit::Expr("some::path".into())),
                    5 => Kind::Word,
                    _ => Kind::Nv(Lit::Int { digits: "99999999999999999999".into(), text: "99999999999999999999".into() }),
                };
                items[k].kind = bad;
                Some("bad-value")
            }
            _ => {
                // wrong form: a list where a value is expected or the reverse
                let cands: Vec<usize> = items.iter().enumerate().filter(|(_, i)| !matches!(i.kind, Kind::Literal(_))).map(|(k, _)| k).collect();
                if cands.is_empty() {
                    return None;
                }
                let k = *rng.pick(&cands);
                let replacement = match &items[k].kind {
                    Kind::List(_) => Kind::Nv(Lit::Int { digits: "1".into(), text: "1".into() }),
                    _ => {
                        let a = word(&mut self.ids, "a");
                        let b = word(&mut self.ids, "b");
                        Kind::List(vec![a, b])
                    }
                };
                items[k].kind = replacement;
                Some("wrong-form")
            }
        }
    }

    fn renumber(&mut self, it: &mut Item) {
        it.id = self.ids.next();
        if let Kind::List(inner) = &mut it.kind {
            for i in inner.iter_mut() {
                self.renumber(i);
            }
        }
    }

    /// what interprets the contents of the list item `it` inside `ctx`
    fn child_ctx(&self, ctx: &Ctx<'a>, it: &Item) -> Option<Ctx<'a>> {
        let name = name_string(&it.name);
        let of_type = |t: &'a Ty| -> Option<Ctx<'a>> {
            let mut t = t;
            loop {
                match t {
                    Ty::Opt(i) => t = i,
                    Ty::Map(_) => return Some(Ctx::Map),
                    Ty::Recv(id) | Ty::BoxRecv(id) => return Some(Ctx::Recv(&self.recvs[*id])),
                    _ => return None,
                }
            }
        };
        let in_fields = |r: &'a Recv, fs: &'a [Field]| -> Option<Ctx<'a>> {
            for f in fs {
                if !f.skip && !f.flatten && field_name(r, f) == name {
                    return of_type(&f.ty);
                }
            }
            // an unclaimed name goes to the flatten member
            for f in fs {
                if f.flatten {
                    if let Ty::Recv(id) | Ty::BoxRecv(id) = &f.ty {
                        let inner: &'a Recv = &self.recvs[*id];
                        if let Shape::Struct(ifs) = &inner.shape {
                            for g in ifs {
                                if !g.skip && !g.flatten && field_name(inner, g) == name {
                                    return of_type(&g.ty);
                                }
                            }
                        }
                    }
                }
            }
            None
        };
        match ctx {
            Ctx::Map => None,
            Ctx::Fields(r, fs) => in_fields(r, fs),
            Ctx::Recv(r) => match &r.shape {
                Shape::Struct(fs) => in_fields(r, fs),
                Shape::Unit => None,
                Shape::Newtype(t) => of_type(t),
                Shape::Enum(vs) => {
                    for v in vs {
                        if variant_name(r, v) == name {
                            return match &v.body {
                                VBody::Newtype(t) => of_type(t),
                                VBody::Struct(fs) => Some(Ctx::Fields(r, fs)),
                                VBody::Unit => None,
                            };
                        }
                    }
                    None
                }
            },
        }
    }
}

fn ctx_names(ctx: &Ctx<'_>) -> Vec<String> {
    match ctx {
        Ctx::Recv(r) => match &r.shape {
            Shape::Struct(fs) => fs.iter().map(|f| field_name(r, f)).collect(),
            Shape::Enum(vs) => vs.iter().map(|v| variant_name(r, v)).collect(),
            _ => vec![],
        },
        Ctx::Fields(r, fs) => fs.iter().map(|f| field_name(r, f)).collect(),
        Ctx::Map => vec![],
    }
}

#[derive(Clone)]
pub enum Ctx<'a> {
    Recv(&'a Recv),
    Fields(&'a Recv, &'a [Field]),
    Map,
}

/// a name at edit distance 0..2 of `base`
pub fn near_miss(rng: &mut Rng, base: &str) -> String {
    // a name of several segments stays a path: the edits fall into one segment
    if let Some((head, last)) = base.rsplit_once("::") {
        return if rng.coin() { format!("{head}::{}", near_miss(rng, last)) } else { format!("{}::{last}", near_miss(rng, head)) };
    }
    let mut cs: Vec<char> = base.chars().collect();
    let edits = rng.weighted(&[1, 5, 3, 1]);
    for _ in 0..edits {
        if cs.is_empty() {
            cs.push('q');
            continue;
        }
        let p = rng.below(cs.len());
        match rng.below(4) {
            0 => {
                cs.remove(p);
            }
            1 => cs.insert(p, *rng.pick(&['a', 'e', 'x', '_', 'l'])),
            2 => cs[p] = *rng.pick(&['a', 'o', 'z', 'm']),
            _ => {
                if p + 1 < cs.len() {
                    cs.swap(p, p + 1);
                }
            }
        }
    }
    let s: String = cs.into_iter().collect();
    if s.is_empty() {
        "q".into()
    } else {
        s
    }
}

// ---------------------------------------------------------------- element-level inputs

#[derive(Clone, Debug)]
pub enum AttrKind {
    List(Vec<Item>, u8),
    Word,
    /// `#[name = <text>]`
    NameValue(String),
    /// any other attribute, given as full text such as `#[doc = "x"]` or `/// x`
    Foreign(String),
}

#[derive(Clone, Debug)]
pub struct Attr {
    pub name: String,
    pub kind: AttrKind,
    /// index of the attribute among all attributes of the rendered input
    pub gid: usize,
}

#[derive(Clone, Debug)]
pub struct Rendered {
    pub text: String,
    pub ranges: Ranges,
    /// byte range of every attribute, by index
    pub attrs: Vec<R>,
}

pub const FOREIGN: [&str; 11] = ["#[attr_a::sub(skip)]", "#[allow(unused)]", "/// a doc comment", "#[doc = \"text\"]", "#[cfg(test)]", "#[derive(Clone)]", "#[allow(dead_code)]", "#[zzz(!!! 1 2)]", "#[other(skip, rename = \"x\")]", "#[other]", "#[serde::rename = \"q\"]"];

pub fn render_attrs(attrs: &[Attr], out: &mut String, ranges: &mut Ranges, spacing: u8) -> Vec<R> {
    let mut rs = vec![];
    for a in attrs {
        let lo = out.len();
        match &a.kind {
            AttrKind::Foreign(t) => {
                out.push_str(t);
                if t.starts_with("///") {
                    out.push('\n');
                }
            }
            AttrKind::Word => out.push_str(&format!("#[{}]", a.name)),
            AttrKind::NameValue(v) => out.push_str(&format!("#[{} = {v}]", a.name)),
            AttrKind::List(items, delim) => {
                let (o, c) = match delim % 10 {
                    1 => ('[', ']'),
                    2 => ('{', '}'),
                    _ => ('(', ')'),
                };
                out.push_str(&format!("#[{}{o}", a.name));
                if *delim >= 10 && items.len() >= 2 {
                    // not a list: a semicolon where the first comma belongs
                    render_item(&items[0], out, ranges, spacing);
                    out.push_str("; ");
                    render_items(&items[1..], out, ranges, spacing, false);
                } else {
                    render_items(items, out, ranges, spacing, false);
                }
                out.push(c);
                out.push(']');
            }
        }
        rs.push((lo, out.len()));
        out.push(' ');
    }
    rs
}

/// the element after the attributes, per trait
pub fn element_tail(rng: &mut Rng, tr: Trait) -> String {
    match tr {
        Trait::DeriveInput => (*rng.pick(&["struct Foo { a: u8, b: String }", "pub struct Bar;", "struct Baz(u8);", "enum Qux { A, B(u8), C { x: u8 } }", "pub(crate) struct Gen<'a, T: Clone> where T: Default { f: &'a T }", "struct Pair(u8, u16);"])).to_string(),
        Trait::Field => (*rng.pick(&["pub name: String", "count: Vec<u8>", "pub(crate) r#type: Option<T>"])).to_string(),
        Trait::Variant => (*rng.pick(&["Alpha", "Beta(u8)", "Gamma { x: u8 }", "Delta = 4", "Pair(u8, u16)"])).to_string(),
        Trait::TypeParam => (*rng.pick(&["T", "U: Clone", "V: Clone + Send = u8", "W = String"])).to_string(),
        Trait::Attributes => String::new(),
        Trait::Meta => String::new(),
    }
}

/// an attribute the receiver must neither read nor (unless forwarding everything) forward: a stock
/// one, or a path that only *resembles* one of the receiver's own names — a leading `::`, an extra
/// segment before or after — with a body that would change the outcome if it were read
pub fn foreign_attr(rng: &mut Rng, r: &Recv) -> String {
    let mut names: Vec<String> = r.attr_names.clone();
    if let Fwd::Only(l) = &r.forward {
        names.extend(l.iter().cloned());
    }
    if names.is_empty() || !rng.chance(1, 3) {
        // (for a receiver that reads `doc` a doc comment is not a foreign attribute)
        loop {
            let f = *rng.pick(&FOREIGN);
            if !(names.iter().any(|n| n == "doc") && (f.starts_with("///") || f.starts_with("#[doc"))) {
                return f.to_string();
            }
        }
    }
    let n = rng.pick(&names).clone();
    if let Some(bare) = n.strip_prefix("::") {
        // the name is declared with a leading `::`: the same path without it is a different attribute
        return match rng.below(3) {
            0 => format!("#[{bare}(zzz_unknown = 1)]"),
            1 => format!("#[{bare}(\"stray literal\")]"),
            _ => format!("#[x::{bare}]"),
        };
    }
    match rng.below(6) {
        0 => format!("#[::{n}(zzz_unknown = 1)]"),
        1 => format!("#[::{n}]"),
        2 => format!("#[{n}::x(zzz_unknown = 1)]"),
        3 => format!("#[x::{n}(\"stray literal\")]"),
        4 => format!("#[::{n} = \"v\"]"),
        _ => format!("#[::{n}(!!! not meta)]"),
    }
}

/// split an item sequence into 1..5 attributes under the receiver's names, with empty / bare
/// attributes and foreign attributes interspersed
pub fn partition(rng: &mut Rng, r: &Recv, items: &[Item], pieces: usize) -> Vec<Attr> {
    let mut attrs = vec![];
    if r.attr_names.is_empty() {
        // nothing is read: whatever we write must have no effect
        for _ in 0..rng.below(3) {
            attrs.push(Attr {
                name: String::new(),
                kind: AttrKind::Foreign(foreign_attr(rng, r)),
                gid: 0,
            });
        }
        for (i, a) in attrs.iter_mut().enumerate() {
            a.gid = i;
        }
        return attrs;
    }
    let n = items.len();
    let pieces = pieces.max(1).min(n.max(1));
    let mut cuts: Vec<usize> = (1..n).collect();
    rng.shuffle(&mut cuts);
    cuts.truncate(pieces - 1);
    cuts.sort();
    let mut start = 0;
    let mut groups: Vec<Vec<Item>> = vec![];
    for c in cuts.iter().chain(std::iter::once(&n)) {
        groups.push(items[start..*c].to_vec());
        start = *c;
    }
    for g in groups {
        if rng.chance(1, 3) {
            attrs.push(Attr {
                name: String::new(),
                kind: AttrKind::Foreign(foreign_attr(rng, r)),
                gid: 0,
            });
        }
        if rng.chance(1, 5) {
            let name = rng.pick(&r.attr_names).clone();
            attrs.push(Attr {
                name: name.clone(),
                kind: if rng.coin() { AttrKind::Word } else { AttrKind::List(vec![], 0) },
                gid: 0,
            });
        }
        let mut name = rng.pick(&r.attr_names).clone();
        if rng.chance(1, 8) {
            // the last segment spelled as a raw identifier: the same path
            if let Some(i) = name.rfind("::") {
                name = format!("{}::r#{}", &name[..i], &name[i + 2..]);
            } else {
                name = format!("r#{name}");
            }
        }
        attrs.push(Attr {
            name,
            kind: AttrKind::List(g, if rng.chance(1, 8) { rng.range(1, 2) as u8 } else { 0 }),
            gid: 0,
        });
    }
    if rng.chance(1, 3) {
        attrs.push(Attr {
            name: String::new(),
            kind: AttrKind::Foreign(foreign_attr(rng, r)),
            gid: 0,
        });
    }
    for (i, a) in attrs.iter_mut().enumerate() {
        a.gid = i;
    }
    attrs
}

pub fn render_element(rng: &mut Rng, tr: Trait, attrs: &[Attr], tail: &str) -> Rendered {
    let mut text = String::new();
    let mut ranges = Ranges::default();
    let spacing = rng.below(6) as u8;
    let ars = render_attrs(attrs, &mut text, &mut ranges, spacing);
    let _ = tr;
    text.push_str(tail);
    Rendered {
        text,
        ranges,
        attrs: ars,
    }
}

/// An item's name may be written with a leading `::`: it is the same name (a field, a variant or an
/// option is matched on the identifiers of the path).
fn spelled(rng: &mut Rng, name: &str) -> String {
    if !name.starts_with("::") && rng.chance(1, 10) {
        format!("::{name}")
    } else {
        name.to_string()
    }
}
