//! Input trees for the generated receivers: meta items as data, rendered to source text with the
//! byte range of every item, name and value recorded. Expected results are always computed from
//! the tree (interp.rs), never by re-parsing the text.

use std::collections::HashMap;
use vfcommon::Rng;

pub type R = (usize, usize);

#[derive(Clone, Debug, PartialEq)]
pub enum Lit {
    /// unquoted integer literal: decimal digits (non-negative), rendered in some radix / suffix
    Int { digits: String, text: String },
    Float { text: String },
    Str { value: String, raw: bool },
    Char(char),
    Bool(bool),
    ByteStr,
    /// a non-literal expression such as `a::b` or `1 + 2`
    Expr(String),
    /// an array expression of literals: `[1, "2", 3]`
    Array(Vec<Lit>),
}

#[derive(Clone, Debug, PartialEq)]
pub enum Kind {
    Word,
    Nv(Lit),
    List(Vec<Item>),
    /// a bare literal in item position (the name is unused)
    Literal(Lit),
}

#[derive(Clone, Debug, PartialEq)]
pub struct Item {
    pub id: usize,
    /// the name as written (may be a multi-segment path)
    pub name: String,
    pub kind: Kind,
    /// delimiter of a list: 0 = (), 1 = [], 2 = {}
    pub delim: u8,
}

impl Item {
    /// the separator between the first two items of the list is not a comma (`delim` of 10 and above)
    pub fn garbled(&self) -> bool {
        self.delim >= 10 && matches!(&self.kind, Kind::List(items) if items.len() >= 2)
    }
}

#[derive(Default)]
pub struct Ids(pub usize);

impl Ids {
    pub fn next(&mut self) -> usize {
        self.0 += 1;
        self.0
    }
}

pub fn word(ids: &mut Ids, name: &str) -> Item {
    Item {
        id: ids.next(),
        name: name.to_string(),
        kind: Kind::Word,
        delim: 0,
    }
}
pub fn nv(ids: &mut Ids, name: &str, lit: Lit) -> Item {
    Item {
        id: ids.next(),
        name: name.to_string(),
        kind: Kind::Nv(lit),
        delim: 0,
    }
}
pub fn list(ids: &mut Ids, name: &str, items: Vec<Item>) -> Item {
    Item {
        id: ids.next(),
        name: name.to_string(),
        kind: Kind::List(items),
        delim: 0,
    }
}
pub fn literal(ids: &mut Ids, lit: Lit) -> Item {
    Item {
        id: ids.next(),
        name: String::new(),
        kind: Kind::Literal(lit),
        delim: 0,
    }
}

/// the name darling sees: identifiers of the path joined by `::` (leading colons ignored)
pub fn path_string(name: &str) -> String {
    // segments as they are written in the source (a keyword is written raw)
    crate::spec::written(name.trim_start_matches("::")).split("::").map(|s| s.trim().to_string()).collect::<Vec<_>>().join("::")
}

/// the name a receiver matches its fields / variants with: the `r#` of a raw identifier is
/// spelling, not part of the name
pub fn name_string(name: &str) -> String {
    path_string(name).split("::").map(|s| s.trim_start_matches("r#")).collect::<Vec<_>>().join("::")
}

#[derive(Clone, Debug, Default)]
pub struct Ranges {
    pub item: HashMap<usize, R>,
    pub name: HashMap<usize, R>,
    pub value: HashMap<usize, R>,
    /// contents of a list (between the delimiters)
    pub inner: HashMap<usize, R>,
    /// elements of an array value: (item id, element index)
    pub elem: HashMap<(usize, usize), R>,
}

pub fn render_lit(l: &Lit) -> String {
    match l {
        Lit::Int { text, .. } => text.clone(),
        Lit::Float { text } => text.clone(),
        Lit::Str { value, raw } => {
            if *raw && !value.contains("\"#") && !value.contains('\r') {
                format!("r#\"{value}\"#")
            } else {
                let mut out = String::from("\"");
                for ch in value.chars() {
                    match ch {
                        '"' => out.push_str("\\\""),
                        '\\' => out.push_str("\\\\"),
                        '\n' => out.push_str("\\n"),
                        '\r' => out.push_str("\\r"),
                        '\t' => out.push_str("\\t"),
                        c => out.push(c),
                    }
                }
                out.push('"');
                out
            }
        }
        Lit::Char(c) => match c {
            '\'' => "'\\''".into(),
            '\\' => "'\\\\'".into(),
            '\n' => "'\\n'".into(),
            c => format!("'{c}'"),
        },
        Lit::Bool(b) => b.to_string(),
        Lit::ByteStr => "b\"bytes\"".into(),
        Lit::Expr(e) => e.clone(),
        Lit::Array(elems) => format!("[{}]", elems.iter().map(render_lit).collect::<Vec<_>>().join(", ")),
    }
}

pub fn render_item(it: &Item, out: &mut String, ranges: &mut Ranges, spacing: u8) {
    let lo = out.len();
    match &it.kind {
        Kind::Literal(l) => {
            out.push_str(&render_lit(l));
            ranges.value.insert(it.id, (lo, out.len()));
        }
        Kind::Word => {
            out.push_str(&crate::spec::written(&it.name));
            ranges.name.insert(it.id, (lo, out.len()));
        }
        Kind::Nv(l) => {
            out.push_str(&crate::spec::written(&it.name));
            ranges.name.insert(it.id, (lo, out.len()));
            out.push_str(if spacing % 2 == 0 { " = " } else { "=" });
            let vlo = out.len();
            if let Lit::Array(elems) = l {
                out.push('[');
                for (k, e) in elems.iter().enumerate() {
                    if k > 0 {
                        out.push_str(", ");
                    }
                    let elo = out.len();
                    out.push_str(&render_lit(e));
                    ranges.elem.insert((it.id, k), (elo, out.len()));
                }
                out.push(']');
            } else {
                out.push_str(&render_lit(l));
            }
            ranges.value.insert(it.id, (vlo, out.len()));
        }
        Kind::List(items) => {
            out.push_str(&crate::spec::written(&it.name));
            ranges.name.insert(it.id, (lo, out.len()));
            let (o, c) = match it.delim % 10 {
                1 => ('[', ']'),
                2 => ('{', '}'),
                _ => ('(', ')'),
            };
            out.push(o);
            let ilo = out.len();
            if it.garbled() {
                // the first item, a semicolon where the comma belongs, the others (a blank would do for
                // most neighbours, but `a ::b` is one longer path)
                render_item(&items[0], out, ranges, spacing);
                out.push_str("; ");
                render_items(&items[1..], out, ranges, spacing, false);
            } else {
                render_items(items, out, ranges, spacing, items.len() > 1 && spacing % 3 == 0);
            }
            ranges.inner.insert(it.id, (ilo, out.len()));
            out.push(c);
        }
    }
    ranges.item.insert(it.id, (lo, out.len()));
}

pub fn render_items(items: &[Item], out: &mut String, ranges: &mut Ranges, spacing: u8, trailing_comma: bool) {
    for (i, it) in items.iter().enumerate() {
        if i > 0 {
            out.push_str(if spacing % 2 == 0 { ", " } else { "," });
        }
        render_item(it, out, ranges, spacing);
    }
    if trailing_comma && !items.is_empty() {
        out.push(',');
    }
}

// ---------------------------------------------------------------- literal spellings

pub fn int_lit(rng: &mut Rng, v: u64) -> Lit {
    let digits = v.to_string();
    let text = match rng.below(8) {
        0 => format!("0x{v:x}"),
        1 => format!("0b{v:b}"),
        2 => format!("0o{v:o}"),
        3 if v >= 1000 => {
            let s = v.to_string();
            format!("{}_{}", &s[..s.len() - 3], &s[s.len() - 3..])
        }
        4 => format!("{v}u8"),
        5 => format!("{v}i64"),
        _ => digits.clone(),
    };
    // suffixes never change the denoted value; `300u8` is still 300 for darling
    Lit::Int { digits, text }
}

pub fn str_lit(rng: &mut Rng, s: &str) -> Lit {
    Lit::Str {
        value: s.to_string(),
        raw: rng.chance(1, 5),
    }
}
