//! Structured input elements (derive inputs, fields, variants, type parameters) for receivers with
//! magic fields, shape validation and body conversion: generation, rendering with recorded
//! ranges, and the reference semantics of the body layer.

use crate::gen::*;
use crate::input::*;
use crate::interp::*;
use crate::spec::*;
use serde_json::{json, Value};
use vfcommon::Rng;

#[derive(Clone, Debug)]
pub struct EField {
    pub attrs: Vec<Attr>,
    pub vis: String,
    pub name: Option<String>,
    pub ty: String,
    /// byte range of the whole field (attributes included), set by rendering
    pub range: R,
}

#[derive(Clone, Debug)]
pub enum EFields {
    Unit,
    Tuple(Vec<EField>),
    Named(Vec<EField>),
}

#[derive(Clone, Debug)]
pub struct EVariant {
    pub attrs: Vec<Attr>,
    pub name: String,
    pub fields: EFields,
    pub disc: Option<String>,
    pub range: R,
}

#[derive(Clone, Debug)]
pub enum EBody {
    Struct(EFields),
    Enum(Vec<EVariant>),
    Union(Vec<EField>),
}

#[derive(Clone, Debug)]
pub struct EItem {
    pub attrs: Vec<Attr>,
    pub vis: String,
    pub name: String,
    pub generics: String,
    pub where_clause: String,
    pub body: EBody,
    /// the one type parameter read by a derived FromTypeParam receiver (with the text of the parameters
    /// before and after it); `generics` is then not used for rendering
    pub tparam: Option<(String, ETypeParam, String)>,
}

#[derive(Clone, Debug)]
pub struct ETypeParam {
    pub attrs: Vec<Attr>,
    pub name: String,
    pub bounds: Vec<String>,
    pub default: Option<String>,
}

#[derive(Clone, Debug)]
pub enum Element {
    Item(EItem),
    Field(EField),
    Variant(EVariant),
    TypeParam(ETypeParam),
}

pub const VIS: [&str; 6] = ["", "pub", "pub(crate)", "pub(super)", "pub(in a::b)", "pub(self)"];
const TYPES: [&str; 8] = ["u8", "String", "Vec<u8>", "Option<T>", "&'a str", "[u8; 4]", "(u8, T)", "std::collections::HashMap<String, T>"];
const FNAMES: [&str; 8] = ["fa", "r#type", "fb", "fc", "name", "fd", "r#fn", "fe"];

impl EFields {
    pub fn list(&self) -> &[EField] {
        match self {
            EFields::Unit => &[],
            EFields::Tuple(f) | EFields::Named(f) => f,
        }
    }
    pub fn shape(&self) -> &'static str {
        match self {
            EFields::Unit => "unit",
            EFields::Named(_) => "named",
            EFields::Tuple(f) if f.len() == 1 => "newtype",
            EFields::Tuple(_) => "tuple",
        }
    }
    pub fn style(&self) -> &'static str {
        match self {
            EFields::Unit => "Unit",
            EFields::Named(_) => "Struct",
            EFields::Tuple(_) => "Tuple",
        }
    }
}

/// attributes for an element read by receiver `r` (None = an element nobody reads)
pub struct ElemGen<'a, 'b> {
    pub ig: &'b mut InputGen<'a>,
    pub recvs: &'a [Recv],
    /// probability (out of 10) that an element with a reader gets a mistake injected
    pub p_mistake: u32,
}

impl<'a, 'b> ElemGen<'a, 'b> {
    pub fn attrs_for(&mut self, rng: &mut Rng, reader: Option<&'a Recv>, mistakes: &mut Vec<&'static str>) -> Vec<Attr> {
        match reader {
            None => {
                let mut v = vec![];
                for _ in 0..rng.below(3) {
                    v.push(Attr {
                        name: String::new(),
                        kind: AttrKind::Foreign((*rng.pick(&FOREIGN)).to_string()),
                        gid: 0,
                    });
                }
                v
            }
            Some(r) => {
                let mut items = self.ig.struct_items(rng, r, 0);
                if (rng.below(10) as u32) < self.p_mistake {
                    for _ in 0..rng.range(1, 2) {
                        if let Some(k) = self.ig.inject(rng, &mut items, r, 0) {
                            mistakes.push(k);
                        }
                    }
                }
                let pieces = rng.range(1, 3);
                let mut attrs = partition(rng, r, &items, pieces);
                // an attribute the receiver reads whose contents are not a list of items at all
                if (rng.below(10) as u32) < self.p_mistake && rng.chance(1, 6) {
                    let cands: Vec<usize> = attrs.iter().enumerate().filter(|(_, a)| matches!(&a.kind, AttrKind::List(items, d) if *d < 10 && items.len() >= 2) && r.attr_names.iter().any(|n| *n == attr_key(a))).map(|(i, _)| i).collect();
                    if !cands.is_empty() {
                        let i = *rng.pick(&cands);
                        if let AttrKind::List(_, d) = &mut attrs[i].kind {
                            *d += 10;
                            mistakes.push("garbled-attribute");
                        }
                    }
                }
                attrs
            }
        }
    }

    pub fn field(&mut self, rng: &mut Rng, named: bool, k: usize, reader: Option<&'a Recv>, mistakes: &mut Vec<&'static str>) -> EField {
        EField {
            attrs: self.attrs_for(rng, reader, mistakes),
            vis: (*rng.pick(&VIS)).to_string(),
            name: if named { Some(FNAMES[k % FNAMES.len()].to_string()) } else { None },
            ty: (*rng.pick(&TYPES)).to_string(),
            range: (0, 0),
        }
    }

    pub fn fields(&mut self, rng: &mut Rng, reader: Option<&'a Recv>, mistakes: &mut Vec<&'static str>) -> EFields {
        match rng.below(8) {
            0 => EFields::Unit,
            1 | 2 => {
                let n = *rng.pick(&[0usize, 1, 1, 2, 3]);
                EFields::Tuple((0..n).map(|k| self.field(rng, false, k, reader, mistakes)).collect())
            }
            _ => {
                let n = rng.range(0, 6);
                EFields::Named((0..n).map(|k| self.field(rng, true, k, reader, mistakes)).collect())
            }
        }
    }

    pub fn variant(&mut self, rng: &mut Rng, k: usize, reader: Option<&'a Recv>, field_reader: Option<&'a Recv>, mistakes: &mut Vec<&'static str>) -> EVariant {
        let fields = match rng.below(6) {
            0 | 1 => EFields::Unit,
            _ => self.fields(rng, field_reader, mistakes),
        };
        // (a variant of any shape may carry an explicit discriminant: `B(u8) = 4`, `C { x: u8 } = 7`)
        let disc = if rng.chance(1, 3) { Some((*rng.pick(&["4", "1 + 2", "0x10", "FOO as isize"])).to_string()) } else { None };
        EVariant {
            attrs: self.attrs_for(rng, reader, mistakes),
            name: format!("{}{k}", rng.pick(&["Alpha", "Beta", "Gamma", "Var"])),
            fields,
            disc,
            range: (0, 0),
        }
    }

    pub fn generics(&mut self, rng: &mut Rng) -> (String, String) {
        if rng.chance(1, 2) {
            // no parameters; a where-clause may still be there
            let wh = match rng.below(6) {
                0 => " where String: Clone",
                1 => " where for<'x> &'x str: Into<String>",
                // (a clause without predicates is still a clause: the receiver is handed `Some`)
                2 => " where",
                _ => "",
            };
            let params = if rng.chance(1, 6) { "<>" } else { "" };
            return (params.to_string(), wh.to_string());
        }
        let mut ps = vec![];
        if rng.coin() {
            ps.push("'a".to_string());
        }
        ps.push((*rng.pick(&["T", "T: Clone", "T: Clone + ?Sized", "T = u8"])).to_string());
        if rng.chance(1, 3) {
            ps.push("U: Iterator<Item = T>".into());
        }
        if rng.chance(1, 3) {
            // (a const parameter may stand in front of the type parameters: the list is handed on in the
            // order it was written)
            if rng.chance(1, 3) {
                let at = ps.iter().position(|p| !p.starts_with('\'')).unwrap_or(ps.len());
                ps.insert(at, "const N: usize".into());
            } else {
                ps.push("const N: usize".into());
            }
        }
        let wh = match rng.below(7) {
            0 | 1 => " where T: Default, Vec<T>: Clone".to_string(),
            2 => " where".to_string(),
            _ => String::new(),
        };
        (format!("<{}>", ps.join(", ")), wh)
    }

    /// an input element for the top-level receiver `r`
    pub fn element(&mut self, rng: &mut Rng, r: &'a Recv, mistakes: &mut Vec<&'static str>) -> Element {
        let body_variant = r.magic.iter().find(|m| m.kind == MagicKind::Data).and_then(|m| m.variant_recv).map(|i| &self.recvs[i]);
        let body_field = r.magic.iter().find(|m| matches!(m.kind, MagicKind::Data | MagicKind::Fields)).and_then(|m| m.field_recv).map(|i| &self.recvs[i]);
        match r.tr {
            Trait::DeriveInput => {
                let (generics, where_clause) = self.generics(rng);
                let body = match rng.below(10) {
                    0 => EBody::Union(vec![self.field(rng, true, 0, None, mistakes), self.field(rng, true, 1, None, mistakes)]),
                    1..=4 => {
                        let n = rng.range(0, 6);
                        let variant_field_reader = body_variant.and_then(|v| v.magic.iter().find(|m| m.kind == MagicKind::Fields).and_then(|m| m.field_recv)).map(|i| &self.recvs[i]);
                        EBody::Enum((0..n).map(|k| self.variant(rng, k, body_variant, variant_field_reader, mistakes)).collect())
                    }
                    _ => EBody::Struct(self.fields(rng, body_field, mistakes)),
                };
                // a `generics` field read by a derived FromTypeParam receiver: one type parameter carrying
                // that receiver's attributes, lifetimes / const parameters around it
                let tp_reader = r.magic.iter().find(|m| m.kind == MagicKind::Generics).and_then(|m| m.tparam_recv).map(|i| &self.recvs[i]);
                let tparam = tp_reader.map(|tr| {
                    let before = if rng.coin() { "'a, ".to_string() } else { String::new() };
                    let after = if rng.chance(1, 3) { ", const N: usize".to_string() } else { String::new() };
                    let mut t = self.type_param(rng, tr, mistakes);
                    t.name = "T".into();
                    (before, t, after)
                });
                let where_clause = if tparam.is_some() && generics.is_empty() { String::new() } else { where_clause };
                Element::Item(EItem {
                    attrs: self.attrs_for(rng, Some(r), mistakes),
                    vis: (*rng.pick(&VIS)).to_string(),
                    name: "Subject".into(),
                    generics,
                    where_clause,
                    body,
                    tparam,
                })
            }
            Trait::Field => {
                let named = rng.chance(4, 5);
                let k = rng.below(8);
                let mut f = self.field(rng, named, k, None, mistakes);
                f.attrs = self.attrs_for(rng, Some(r), mistakes);
                Element::Field(f)
            }
            Trait::Variant => {
                let mut v = self.variant(rng, 0, None, body_field, mistakes);
                v.attrs = self.attrs_for(rng, Some(r), mistakes);
                Element::Variant(v)
            }
            Trait::TypeParam => Element::TypeParam(self.type_param(rng, r, mistakes)),
            _ => unreachable!(),
        }
    }

    fn type_param(&mut self, rng: &mut Rng, r: &'a Recv, mistakes: &mut Vec<&'static str>) -> ETypeParam {
        ETypeParam {
            attrs: self.attrs_for(rng, Some(r), mistakes),
            name: (*rng.pick(&["T", "U", "Item"])).to_string(),
            bounds: match rng.below(4) {
                0 => vec![],
                1 => vec!["Clone".into()],
                2 => vec!["Clone".into(), "?Sized".into(), "'static".into()],
                _ => vec!["Iterator<Item = u8>".into(), "Send".into()],
            },
            default: if rng.chance(1, 3) { Some((*rng.pick(&["u8", "Vec<String>"])).to_string()) } else { None },
        }
    }
}

// ---------------------------------------------------------------- rendering

pub struct RenderedElem {
    pub text: String,
    pub ranges: Ranges,
    pub attr_ranges: Vec<R>,
    pub attr_texts: Vec<String>,
}

struct Rend {
    out: String,
    ranges: Ranges,
    attr_ranges: Vec<R>,
    spacing: u8,
}

impl Rend {
    fn attrs(&mut self, attrs: &mut [Attr]) {
        for a in attrs.iter_mut() {
            a.gid = self.attr_ranges.len();
            let one = std::slice::from_ref(a);
            let rs = render_attrs(one, &mut self.out, &mut self.ranges, self.spacing);
            self.attr_ranges.push(rs[0]);
        }
    }
    fn field(&mut self, f: &mut EField) {
        let lo = self.out.len();
        self.attrs(&mut f.attrs);
        if !f.vis.is_empty() {
            self.out.push_str(&f.vis);
            self.out.push(' ');
        }
        if let Some(n) = &f.name {
            self.out.push_str(n);
            self.out.push_str(": ");
        }
        self.out.push_str(&f.ty);
        f.range = (lo, self.out.len());
    }
    fn fields(&mut self, fs: &mut EFields, trailing_semicolon: bool) {
        match fs {
            EFields::Unit => {
                if trailing_semicolon {
                    self.out.push(';');
                }
            }
            EFields::Tuple(v) => {
                self.out.push('(');
                for (i, f) in v.iter_mut().enumerate() {
                    if i > 0 {
                        self.out.push_str(", ");
                    }
                    self.field(f);
                }
                self.out.push(')');
                if trailing_semicolon {
                    self.out.push(';');
                }
            }
            EFields::Named(v) => {
                self.out.push_str(" { ");
                for (i, f) in v.iter_mut().enumerate() {
                    if i > 0 {
                        self.out.push_str(", ");
                    }
                    self.field(f);
                }
                self.out.push_str(" }");
            }
        }
    }
    fn type_param(&mut self, t: &mut ETypeParam) {
        self.attrs(&mut t.attrs);
        self.out.push_str(&t.name);
        if !t.bounds.is_empty() {
            self.out.push_str(": ");
            self.out.push_str(&t.bounds.join(" + "));
        }
        if let Some(d) = &t.default {
            self.out.push_str(" = ");
            self.out.push_str(d);
        }
    }
    /// the generic parameter list of an item
    fn item_generics(&mut self, generics: &str, tparam: &mut Option<(String, ETypeParam, String)>) {
        match tparam {
            Some((before, t, after)) => {
                self.out.push('<');
                self.out.push_str(before);
                self.type_param(t);
                self.out.push_str(after);
                self.out.push('>');
            }
            None => self.out.push_str(generics),
        }
    }
    fn variant(&mut self, v: &mut EVariant) {
        let lo = self.out.len();
        self.attrs(&mut v.attrs);
        self.out.push_str(&v.name);
        self.fields(&mut v.fields, false);
        if let Some(d) = &v.disc {
            self.out.push_str(" = ");
            self.out.push_str(d);
        }
        v.range = (lo, self.out.len());
    }
}

pub fn render(e: &mut Element, spacing: u8) -> RenderedElem {
    let mut r = Rend {
        out: String::new(),
        ranges: Ranges::default(),
        attr_ranges: vec![],
        spacing,
    };
    match e {
        Element::Item(it) => {
            r.attrs(&mut it.attrs);
            if !it.vis.is_empty() {
                r.out.push_str(&it.vis);
                r.out.push(' ');
            }
            let EItem { name, generics, where_clause, body, tparam, .. } = it;
            let it_where = where_clause.clone();
            match body {
                EBody::Struct(fs) => {
                    r.out.push_str(&format!("struct {name}"));
                    r.item_generics(generics, tparam);
                    match fs {
                        EFields::Named(_) => {
                            r.out.push_str(&it_where);
                            r.fields(fs, false);
                        }
                        _ => {
                            // tuple / unit structs carry the where-clause after the fields
                            let wc = it_where.clone();
                            match fs {
                                EFields::Unit => {
                                    r.out.push_str(&wc);
                                    r.out.push(';');
                                }
                                _ => {
                                    r.fields(fs, false);
                                    r.out.push_str(&wc);
                                    r.out.push(';');
                                }
                            }
                        }
                    }
                }
                EBody::Enum(vs) => {
                    r.out.push_str(&format!("enum {name}"));
                    r.item_generics(generics, tparam);
                    r.out.push_str(&format!("{it_where} {{ "));
                    for (i, v) in vs.iter_mut().enumerate() {
                        if i > 0 {
                            r.out.push_str(", ");
                        }
                        r.variant(v);
                    }
                    r.out.push_str(" }");
                }
                EBody::Union(fs) => {
                    r.out.push_str(&format!("union {name}"));
                    r.item_generics(generics, tparam);
                    r.out.push_str(&format!("{it_where} {{ "));
                    for (i, f) in fs.iter_mut().enumerate() {
                        if i > 0 {
                            r.out.push_str(", ");
                        }
                        r.field(f);
                    }
                    r.out.push_str(" }");
                }
            }
        }
        Element::Field(f) => r.field(f),
        Element::Variant(v) => r.variant(v),
        Element::TypeParam(t) => r.type_param(t),
    }
    let attr_texts = r.attr_ranges.iter().map(|(a, b)| r.out[*a..*b].to_string()).collect();
    RenderedElem {
        text: r.out,
        ranges: r.ranges,
        attr_ranges: r.attr_ranges,
        attr_texts,
    }
}

// ---------------------------------------------------------------- reference semantics

fn tokens(text: &str) -> Value {
    json!({ "tokens": canon_tokens(text) })
}

fn shape_leaf(name: &str) -> Leaf {
    Leaf {
        kind: LeafKind::BadAttribute,
        path: vec![],
        at: Where::Nowhere,
        name: name.to_string(),
        alts: vec![],
    }
}

/// the documented shape table
pub fn shape_accepts(words: &[String], prefix: &str, shape: &str) -> bool {
    let has = |w: &str| words.iter().any(|x| x == &format!("{prefix}{w}"));
    has("any") || has(shape) || (shape == "newtype" && has("tuple"))
}

impl<'a> Interp<'a> {
    /// errors of `supports(..)` for a derive input
    pub fn supports_item(&self, words: &[String], body: &EBody) -> Vec<Leaf> {
        if words.iter().any(|w| w == "any") {
            return vec![];
        }
        let any_struct = words.iter().any(|w| w.starts_with("struct_"));
        let any_enum = words.iter().any(|w| w.starts_with("enum_"));
        match body {
            EBody::Struct(fs) => {
                if !any_struct || !shape_accepts(words, "struct_", fs.shape()) {
                    vec![shape_leaf("struct")]
                } else {
                    vec![]
                }
            }
            EBody::Enum(vs) => {
                if !any_enum {
                    return vec![shape_leaf("enum")];
                }
                vs.iter().filter(|v| !shape_accepts(words, "enum_", v.fields.shape())).map(|v| shape_leaf(&v.name)).collect()
            }
            EBody::Union(_) => vec![shape_leaf("union")],
        }
    }

    pub fn element_full(&self, r: &Recv, e: &Element, texts: &[String], full_text: &str) -> Outcome {
        let attrs: &[Attr] = match e {
            Element::Item(i) => &i.attrs,
            Element::Field(f) => &f.attrs,
            Element::Variant(v) => &v.attrs,
            Element::TypeParam(t) => &t.attrs,
        };
        // attribute layer (shape validation belongs to it)
        let mut extra: Vec<Leaf> = vec![];
        if let Some(words) = &r.supports {
            match (r.tr, e) {
                (Trait::DeriveInput, Element::Item(it)) => extra.extend(self.supports_item(words, &it.body)),
                (Trait::Variant, Element::Variant(v)) => {
                    if !shape_accepts(words, "", v.fields.shape()) {
                        extra.push(shape_leaf(&v.name));
                    }
                }
                _ => {}
            }
        }
        // nested FromMeta receivers inside the attributes finish normally; only this receiver's own
        // container transform waits for the body
        let ev = self.element_with_deferred_post(r, attrs, texts, extra);
        let mut v = match ev.outcome {
            Outcome::Err(l) => return Outcome::Err(l),
            Outcome::Ok(v) => v,
        };
        // magic fields, in the order the generated code fills them
        let mut magic = serde_json::Map::new();
        let mut body_errors: Vec<Leaf> = vec![];
        for m in &r.magic {
            let val: Result<Value, Vec<Leaf>> = match (m.kind, e) {
                (MagicKind::Ident, Element::Item(i)) => Ok(tokens(&i.name)),
                (MagicKind::Ident, Element::Variant(x)) => Ok(tokens(&x.name)),
                (MagicKind::Ident, Element::TypeParam(t)) => Ok(tokens(&t.name)),
                (MagicKind::Ident, Element::Field(f)) => Ok(match &f.name {
                    Some(n) => json!({ "some": tokens(n) }),
                    None => Value::Null,
                }),
                (MagicKind::Vis, Element::Item(i)) => Ok(tokens(&i.vis)),
                (MagicKind::Vis, Element::Field(f)) => Ok(tokens(&f.vis)),
                (MagicKind::Ty, Element::Field(f)) => Ok(tokens(&f.ty)),
                (MagicKind::Generics, Element::Item(i)) if m.tparam_recv.is_some() && i.tparam.is_some() => {
                    // the type parameter is read by its own receiver; its mistakes are body-layer mistakes
                    let (before, t, after) = i.tparam.as_ref().unwrap();
                    match self.element_full(&self.recvs[m.tparam_recv.unwrap()], &Element::TypeParam(t.clone()), texts, full_text) {
                        Outcome::Ok(v) => {
                            let mut params = vec![];
                            for l in before.split(',').map(|x| x.trim()).filter(|x| !x.is_empty()) {
                                params.push(json!({ "lifetime": canon_tokens(l) }));
                            }
                            params.push(json!({ "type": v }));
                            for c in after.split(',').map(|x| x.trim()).filter(|x| !x.is_empty()) {
                                params.push(json!({ "const": canon_tokens(c) }));
                            }
                            Ok(json!({"params": params, "where": canon_tokens(i.where_clause.trim())}))
                        }
                        Outcome::Err(l) => Err(l),
                    }
                }
                (MagicKind::Generics, Element::Item(i)) => {
                    let g = json!({"tokens": canon_tokens(&i.generics_for_dump()), "where": canon_tokens(i.where_clause.trim())});
                    Ok(match m.wrap {
                        Wrap::Plain => g,
                        Wrap::Spanned => json!({"spanned": g}),
                        Wrap::WithOriginal => json!({"parsed": g, "original": canon_tokens(&i.generics_for_dump())}),
                        Wrap::Result => json!({"ok": g}),
                    })
                }
                (MagicKind::Bounds, Element::TypeParam(t)) => Ok(Value::Array(t.bounds.iter().map(|b| tokens(b)).collect())),
                (MagicKind::Default, Element::TypeParam(t)) => Ok(match &t.default {
                    Some(d) => json!({ "some": tokens(d) }),
                    None => Value::Null,
                }),
                (MagicKind::Discriminant, Element::Variant(x)) => Ok(match &x.disc {
                    Some(d) => json!({ "some": tokens(d) }),
                    None => Value::Null,
                }),
                (MagicKind::Fields, Element::Variant(x)) => self.fields_value(m.field_recv, &x.fields, texts, full_text),
                (MagicKind::Data, Element::Item(i)) => self.data_value(m, &i.body, texts, full_text),
                _ => Ok(Value::Null),
            };
            match val {
                Ok(x) => {
                    magic.insert(format!("@{}", magic_name(m.kind)), x);
                }
                // the generics and the body are one layer: the mistakes of one do not hide the other's
                Err(l) => body_errors.extend(l),
            }
        }
        if !body_errors.is_empty() {
            return Outcome::Err(body_errors);
        }
        if let Some(obj) = v.get_mut(r.name()).and_then(|o| o.as_object_mut()) {
            for (k, x) in magic {
                obj.insert(k, x);
            }
        }
        match self.container_post(r, v) {
            Ok(v) => Outcome::Ok(v),
            Err(l) => Outcome::Err(l),
        }
    }

    fn fields_value(&self, reader: Option<usize>, fs: &EFields, texts: &[String], full_text: &str) -> Result<Value, Vec<Leaf>> {
        let mut errors = vec![];
        let mut vals = vec![];
        for f in fs.list() {
            match reader {
                None => vals.push(tokens(&full_text[f.range.0..f.range.1])),
                Some(id) => match self.element_full(&self.recvs[id], &Element::Field(f.clone()), texts, full_text) {
                    Outcome::Ok(v) => vals.push(v),
                    Outcome::Err(l) => {
                        // named fields are located by their name
                        for mut leaf in l {
                            if let Some(n) = &f.name {
                                // (the `r#` of a raw identifier is spelling, not part of the name)
                                leaf.path.insert(0, n.trim_start_matches("r#").to_string());
                            }
                            errors.push(leaf);
                        }
                    }
                },
            }
        }
        if errors.is_empty() {
            Ok(json!({"style": fs.style(), "fields": vals}))
        } else {
            Err(errors)
        }
    }

    fn data_value(&self, m: &Magic, body: &EBody, texts: &[String], full_text: &str) -> Result<Value, Vec<Leaf>> {
        match body {
            EBody::Union(_) => Err(vec![Leaf {
                kind: LeafKind::BadAttribute,
                path: vec![],
                at: Where::Nowhere,
                name: "union".into(),
                alts: vec![],
            }]),
            EBody::Struct(fs) => self.fields_value(m.field_recv, fs, texts, full_text).map(|v| json!({ "struct": v })),
            EBody::Enum(vs) => {
                let mut errors = vec![];
                let mut vals = vec![];
                for v in vs {
                    match m.variant_recv {
                        None => vals.push(tokens(&full_text[v.range.0..v.range.1])),
                        Some(id) => match self.element_full(&self.recvs[id], &Element::Variant(v.clone()), texts, full_text) {
                            Outcome::Ok(x) => vals.push(x),
                            Outcome::Err(l) => errors.extend(l),
                        },
                    }
                }
                if errors.is_empty() {
                    Ok(json!({ "enum": vals }))
                } else {
                    Err(errors)
                }
            }
        }
    }
}

impl EItem {
    /// `syn::Generics` prints its parameter list only (defaults included)
    pub fn generics_for_dump(&self) -> String {
        // an empty `<>` is kept by the syntax tree but printed as nothing
        if self.generics.trim() == "<>" {
            return String::new();
        }
        self.generics.clone()
    }
}

pub fn magic_name(k: MagicKind) -> &'static str {
    match k {
        MagicKind::Ident => "ident",
        MagicKind::Vis => "vis",
        MagicKind::Generics => "generics",
        MagicKind::Ty => "ty",
        MagicKind::Bounds => "bounds",
        MagicKind::Default => "default",
        MagicKind::Discriminant => "discriminant",
        MagicKind::Data => "data",
        MagicKind::Fields => "fields",
    }
}
