//! Comparing a driver reply with the reference interpreter's outcome, per aspect:
//! value (C01), leaf bijection (C02), spans (C03), totality (C07), suggestions (C17).

use crate::input::{Ranges, R};
use crate::interp::{Leaf, LeafKind, Outcome, Where};
use serde_json::{json, Value};

#[derive(Clone, Debug)]
pub struct ObsLeaf {
    pub msg: String,
    pub kind_text: String,
    pub path: Vec<String>,
    pub span: Option<R>,
    pub family: char,
    pub named: Option<String>,
    pub suggestion: Option<String>,
    pub diag_msg: String,
    pub diag_span: Option<R>,
    pub has_diag: bool,
}

pub enum Observed {
    Ok(Value),
    Err { len: usize, leaves: Vec<ObsLeaf> },
    Panic { msg: String, at: String },
    /// the workload text did not parse before darling was called
    Unparsed(String),
    Died(String),
}

pub fn family_of(kind_text: &str) -> char {
    let t = kind_text;
    if t.starts_with("Unknown field") {
        'U'
    } else if t.starts_with("Duplicate field") {
        'D'
    } else if t.starts_with("Missing field") {
        'M'
    } else if t.starts_with("Too few items") || t.starts_with("Too many items") {
        'T'
    } else if t.starts_with("Unexpected meta-item format") || t.starts_with("Unexpected type") || t.starts_with("Unknown literal value") || t.starts_with("invalid digit") || t.starts_with("number too large") || t.starts_with("number too small") || t.starts_with("cannot parse") {
        'F'
    } else if t.starts_with("rejected by") {
        'C'
    } else if t.starts_with("Unsupported shape") || t.starts_with("Unions are not supported") {
        'S'
    } else {
        '?'
    }
}

fn backticked(s: &str) -> Option<String> {
    let a = s.find('`')?;
    let b = s[a + 1..].find('`')?;
    Some(s[a + 1..a + 1 + b].to_string())
}

pub fn parse_leaf(l: &Value, diag: Option<&Value>) -> ObsLeaf {
    let msg = l["msg"].as_str().unwrap_or("").to_string();
    // ` at a/b/c` is a location path only when what follows has no blanks ("Expected at least 1" is not)
    let (kind_text, path) = match msg.rfind(" at ") {
        Some(i) if !msg[i + 4..].contains(' ') => (msg[..i].to_string(), msg[i + 4..].split('/').map(|s| s.to_string()).collect()),
        _ => (msg.clone(), vec![]),
    };
    let span = l["span"].as_array().and_then(|a| Some((a.first()?.as_i64()?, a.get(1)?.as_i64()?))).filter(|(a, b)| *a >= 0 && *b >= 0).map(|(a, b)| (a as usize, b as usize));
    let family = family_of(&kind_text);
    let suggestion = kind_text.find("Did you mean `").map(|i| {
        let rest = &kind_text[i + 14..];
        rest[..rest.find('`').unwrap_or(rest.len())].to_string()
    });
    ObsLeaf {
        named: backticked(&kind_text),
        msg,
        kind_text,
        path,
        span,
        family,
        suggestion,
        diag_msg: diag.and_then(|d| d["msg"].as_str()).unwrap_or("").to_string(),
        diag_span: diag.and_then(|d| d["span"].as_array()).and_then(|a| Some((a.first()?.as_i64()?, a.get(1)?.as_i64()?))).filter(|(a, b)| *a >= 0 && *b >= 0).map(|(a, b)| (a as usize, b as usize)),
        has_diag: diag.is_some(),
    }
}

pub fn parse_reply(v: &Value) -> Observed {
    if let Some(ok) = v.get("ok") {
        return Observed::Ok(ok.clone());
    }
    if let Some(e) = v.get("err") {
        let diags = e["diags"].as_array().cloned().unwrap_or_default();
        let leaves = e["leaves"].as_array().cloned().unwrap_or_default().iter().enumerate().map(|(i, l)| parse_leaf(l, diags.get(i))).collect();
        return Observed::Err {
            len: e["len"].as_u64().unwrap_or(0) as usize,
            leaves,
        };
    }
    if let Some(p) = v.get("panic") {
        return Observed::Panic {
            msg: p["msg"].as_str().unwrap_or("").to_string(),
            at: p["at"].as_str().unwrap_or("").to_string(),
        };
    }
    if let Some(u) = v.get("unparsed") {
        return Observed::Unparsed(u.as_str().unwrap_or("").to_string());
    }
    Observed::Unparsed(v.to_string())
}

fn norm_path(p: &[String]) -> Vec<String> {
    p.iter()
        .map(|s| match (s.find('['), s.ends_with(']')) {
            (Some(i), true) if s[i + 1..s.len() - 1].chars().all(|c| c.is_ascii_digit()) => format!("{}[]", &s[..i]),
            _ => s.clone(),
        })
        .collect()
}

fn family_expected(k: &LeafKind) -> &'static str {
    match k {
        LeafKind::Unknown => "U",
        LeafKind::Duplicate => "D",
        LeafKind::Missing => "M",
        LeafKind::LiteralItem | LeafKind::BadValue => "F",
        LeafKind::TooFew | LeafKind::TooMany => "T",
        LeafKind::Custom => "C",
        LeafKind::BadAttribute => "*",
    }
}

fn compatible(o: &ObsLeaf, e: &Leaf) -> bool {
    if norm_path(&o.path) != norm_path(&e.path) {
        return false;
    }
    let fe = family_expected(&e.kind);
    // a leaf of no known family is matched on path / span alone; a *different known* family is a mismatch
    if fe != "*" && o.family != '?' && !fe.contains(o.family) {
        return false;
    }
    // an enum takes exactly one item: that is the bound the count errors state, each its own
    match e.kind {
        LeafKind::TooFew if o.family == 'T' && o.kind_text != "Too few items: Expected at least 1" => return false,
        LeafKind::TooMany if o.family == 'T' && o.kind_text != "Too many items: Expected no more than 1" => return false,
        _ => {}
    }
    if matches!(e.kind, LeafKind::Unknown | LeafKind::Duplicate | LeafKind::Missing) {
        if let Some(n) = &o.named {
            // (the message may or may not keep the `r#` of a raw identifier: spelling, not name)
            if n.replace("r#", "") != e.name.replace("r#", "") {
                return false;
            }
        }
    }
    true
}

pub fn range_of(at: &Where, ranges: &Ranges, attr_ranges: &[R]) -> Option<R> {
    match at {
        Where::Item(id) => ranges.item.get(id).copied(),
        Where::Value(id) => ranges.value.get(id).copied(),
        Where::Element(id, k) => ranges.elem.get(&(*id, *k)).copied(),
        Where::Name(id) => ranges.name.get(id).copied(),
        Where::Attr(i) => attr_ranges.get(*i).copied(),
        Where::Nowhere => None,
    }
}

pub struct Finding {
    pub prop: &'static str,
    pub class: String,
    pub what: String,
}

pub struct Judged {
    pub findings: Vec<Finding>,
    pub expected_ok: bool,
    pub observed_ok: bool,
    pub leaves: usize,
}

/// Compare one reply with the interpreter's outcome.
pub fn judge(expected: &Outcome, observed: &Observed, ranges: &Ranges, attr_ranges: &[R], suggestions_enabled: bool) -> Judged {
    let mut f: Vec<Finding> = vec![];
    let mut add = |prop: &'static str, class: String, what: String| f.push(Finding { prop, class, what });
    let expected_ok = matches!(expected, Outcome::Ok(_));
    let mut observed_ok = false;
    let mut nleaves = 0;
    match (expected, observed) {
        (_, Observed::Panic { msg, at }) => {
            // panics inside generated code are identified by their message (line numbers of a
            // generated file mean nothing), panics inside darling by file:line
            let class = if at.contains("shard") || !at.contains("/") {
                format!("panic:generated-code:{}", msg.split_whitespace().take(5).collect::<Vec<_>>().join("_"))
            } else {
                format!("panic:{}", vfcommon::short_loc(at))
            };
            add("C07", class, format!("panicked: {msg} at {at}"))
        }
        (_, Observed::Died(s)) => add("C07", "driver-died".into(), format!("the driver process died: {s}")),
        (_, Observed::Unparsed(_)) => {}
        (Outcome::Ok(want), Observed::Ok(got)) => {
            observed_ok = true;
            if want != got {
                add("C01", diff_class(want, got), format!("value differs: observed {got}, the declared mapping gives {want}"));
            }
        }
        (Outcome::Ok(want), Observed::Err { leaves, .. }) => {
            add("C01", "rejects-mistake-free".into(), format!("mistake-free input rejected: {:?}; expected {want}", leaves.iter().map(|l| &l.msg).collect::<Vec<_>>()));
            add("C02", format!("invented:{}", leaves.first().map(|l| l.family).unwrap_or('?')), format!("parsing failed although the input has no mistake: {:?}", leaves.iter().map(|l| &l.msg).collect::<Vec<_>>()));
        }
        (Outcome::Err(want), Observed::Ok(got)) => {
            observed_ok = true;
            add("C02", format!("accepted:{:?}", want[0].kind), format!("input with {} mistakes ({:?}) was accepted as {got}", want.len(), want.iter().map(|l| (&l.kind, &l.name, &l.path)).collect::<Vec<_>>()));
        }
        (Outcome::Err(want), Observed::Err { len, leaves }) => {
            nleaves = leaves.len();
            if *len != leaves.len() {
                add("C04", "len-vs-leaves".into(), format!("len() = {len} but flatten() yields {} leaves", leaves.len()));
            }
            // bijection
            let mut used = vec![false; leaves.len()];
            let mut pairs: Vec<(usize, usize)> = vec![];
            // prefer pairs whose span also fits, so that C03 does not blame an arbitrary pairing
            for pass in 0..2 {
                for (ei, e) in want.iter().enumerate() {
                    if pairs.iter().any(|p| p.0 == ei) {
                        continue;
                    }
                    let range = range_of(&e.at, ranges, attr_ranges);
                    let found = leaves.iter().enumerate().position(|(oi, o)| {
                        !used[oi]
                            && compatible(o, e)
                            && (pass == 1
                                || match (o.span, range) {
                                    (Some(s), Some(r)) => s.0 >= r.0 && s.1 <= r.1,
                                    (None, None) => true,
                                    _ => false,
                                })
                    });
                    if let Some(oi) = found {
                        used[oi] = true;
                        pairs.push((ei, oi));
                    }
                }
            }
            for (ei, e) in want.iter().enumerate() {
                if !pairs.iter().any(|p| p.0 == ei) {
                    add("C02", format!("dropped:{:?}", e.kind), format!("mistake not reported: {:?} `{}` at path {:?}; observed leaves {:?}", e.kind, e.name, e.path, leaves.iter().map(|l| &l.msg).collect::<Vec<_>>()));
                }
            }
            for (oi, o) in leaves.iter().enumerate() {
                if !used[oi] {
                    let dup = want.iter().any(|e| compatible(o, e));
                    add("C02", format!("{}:{}", if dup { "duplicated" } else { "invented" }, o.family), format!("leaf {:?} corresponds to no mistake of the input (expected {:?})", o.msg, want.iter().map(|l| (&l.kind, &l.name, &l.path)).collect::<Vec<_>>()));
                }
            }
            // conversion to compiler diagnostics keeps every leaf's span and message
            for o in leaves.iter() {
                if !o.has_diag {
                    add("C04", "diagnostic-missing".into(), format!("leaf {:?} has no compiler diagnostic", o.msg));
                } else if o.diag_span != o.span {
                    add("C03", "diagnostic-span-differs".into(), format!("leaf {:?} has span {:?} but its compiler diagnostic is at {:?}", o.msg, o.span, o.diag_span));
                }
            }
            // spans
            for (ei, oi) in &pairs {
                let e = &want[*ei];
                let o = &leaves[*oi];
                let range = range_of(&e.at, ranges, attr_ranges);
                match (o.span, range) {
                    (Some(s), Some(r)) => {
                        if !(s.0 >= r.0 && s.1 <= r.1) {
                            let class = if s.0 <= r.0 && s.1 >= r.1 { "span-too-coarse" } else { "span-elsewhere" };
                            add("C03", format!("{class}:{:?}", e.kind), format!("leaf {:?} has span [{},{}); the {} at fault is [{},{})", o.msg, s.0, s.1, where_name(&e.at), r.0, r.1));
                        }
                    }
                    (None, Some(r)) => add("C03", format!("span-missing:{:?}", e.kind), format!("leaf {:?} has no span; it concerns the {} at [{},{})", o.msg, where_name(&e.at), r.0, r.1)),
                    (None, None) => {
                        // an unspanned leaf must render its location path in the diagnostic
                        if !o.path.is_empty() && !o.diag_msg.contains(" at ") {
                            add("C03", "unspanned-without-path".into(), format!("unspanned leaf {:?} is rendered as {:?} without its location path", o.msg, o.diag_msg));
                        }
                    }
                    (Some(_), None) => {}
                }
            }
            // second chance for C03: a mistake that went unmatched only because its location path is wrong
            // still has a leaf of its family somewhere; that leaf's span is judged too
            {
                let mut taken = used.clone();
                for (ei, e) in want.iter().enumerate() {
                    if pairs.iter().any(|p| p.0 == ei) {
                        continue;
                    }
                    let Some(r) = range_of(&e.at, ranges, attr_ranges) else { continue };
                    let fe = family_expected(&e.kind);
                    let Some(oi) = leaves.iter().enumerate().position(|(oi, o)| !taken[oi] && fe != "*" && fe.contains(o.family)) else { continue };
                    taken[oi] = true;
                    let o = &leaves[oi];
                    match o.span {
                        None => add("C03", format!("span-missing:{:?}", e.kind), format!("leaf {:?} (matched by kind only, its path differs) has no span; it concerns the {} at [{},{})", o.msg, where_name(&e.at), r.0, r.1)),
                        Some(s) if !(s.0 >= r.0 && s.1 <= r.1) => {
                            let class = if s.0 <= r.0 && s.1 >= r.1 { "span-too-coarse" } else { "span-elsewhere" };
                            add("C03", format!("{class}:{:?}", e.kind), format!("leaf {:?} (matched by kind only, its path differs) has span [{},{}); the {} at fault is [{},{})", o.msg, s.0, s.1, where_name(&e.at), r.0, r.1));
                        }
                        _ => {}
                    }
                }
            }
            // suggestions
            for (ei, oi) in &pairs {
                let e = &want[*ei];
                let o = &leaves[*oi];
                if e.kind != LeafKind::Unknown {
                    if o.suggestion.is_some() {
                        add("C17", "suggestion-on-other-kind".into(), format!("leaf {:?} carries a suggestion but is not an unknown-name error", o.msg));
                    }
                    continue;
                }
                let scored: Vec<(f64, &String)> = e.alts.iter().map(|a| (strsim::jaro_winkler(&e.name, a), a)).collect();
                let best = scored.iter().map(|s| s.0).fold(0.0f64, f64::max);
                match &o.suggestion {
                    Some(y) => {
                        if !suggestions_enabled {
                            add("C17", "suggestion-with-feature-off".into(), format!("{:?} although suggestions are disabled", o.msg));
                        } else if !e.alts.contains(y) {
                            add("C17", "suggests-invalid-name".into(), format!("{:?}: `{y}` is not a name accepted at that position (valid: {:?})", o.msg, e.alts));
                        } else if *y == e.name {
                            add("C17", "suggests-rejected-name".into(), format!("{:?} suggests the rejected name itself", o.msg));
                        } else {
                            let sy = strsim::jaro_winkler(&e.name, y);
                            if sy + 1e-12 < best {
                                add("C17", "not-best-match".into(), format!("{:?}: `{y}` scores {sy:.4}, a valid name scores {best:.4} ({:?})", o.msg, scored));
                            }
                            if sy <= 0.8 {
                                add("C17", "below-threshold".into(), format!("{:?}: `{y}` scores {sy:.4} <= 0.8", o.msg));
                            }
                        }
                    }
                    None => {
                        if suggestions_enabled && best > 0.8 {
                            add("C17", "suggestion-missing".into(), format!("{:?}: a valid name scores {best:.4} > 0.8 ({:?}) but nothing is suggested", o.msg, scored));
                        }
                    }
                }
            }
        }
    }
    Judged {
        findings: f,
        expected_ok,
        observed_ok,
        leaves: nleaves,
    }
}

fn where_name(w: &Where) -> &'static str {
    match w {
        Where::Item(_) => "item",
        Where::Value(_) => "value",
        Where::Element(..) => "array element",
        Where::Name(_) => "name",
        Where::Attr(_) => "attribute",
        Where::Nowhere => "nothing",
    }
}

/// classify a value difference by the first differing field's content (tags make the source visible)
fn diff_class(want: &Value, got: &Value) -> String {
    fn walk(w: &Value, g: &Value, path: &mut Vec<String>) -> Option<(String, Value, Value)> {
        match (w, g) {
            (Value::Object(a), Value::Object(b)) => {
                for (k, va) in a {
                    match b.get(k) {
                        Some(vb) => {
                            if va != vb {
                                path.push(k.clone());
                                return walk(va, vb, path);
                            }
                        }
                        None => return Some((path.join("."), va.clone(), Value::Null)),
                    }
                }
                for (k, vb) in b {
                    if !a.contains_key(k) {
                        return Some((path.join("."), Value::Null, vb.clone()));
                    }
                }
                None
            }
            _ => Some((path.join("."), w.clone(), g.clone())),
        }
    }
    let mut p = vec![];
    match walk(want, got, &mut p) {
        Some((_, w, g)) => {
            let tag = |v: &Value| -> &'static str {
                let s = v.to_string();
                if s.contains("fd#") || (v.as_i64().map(|n| (9000..9100).contains(&n)).unwrap_or(false)) {
                    "field-default"
                } else if s.contains("cd#") || (v.as_i64().map(|n| (7000..7100).contains(&n)).unwrap_or(false)) {
                    "container-default"
                } else if s.contains("m(") {
                    "mapped"
                } else if s.contains("w(") {
                    "with"
                } else if v.is_null() {
                    "null"
                } else if v.is_array() {
                    "list"
                } else {
                    "plain"
                }
            };
            format!("value:{}-vs-{}", tag(&w), tag(&g))
        }
        None => "value:unknown".into(),
    }
}

pub fn witness(recv_src: &str, entry: &str, src: &str, expected: &Outcome, reply: &Value) -> Value {
    json!({
        "receiver": recv_src,
        "entry": entry,
        "input": src,
        "expected": match expected {
            Outcome::Ok(v) => json!({"ok": v}),
            Outcome::Err(l) => json!({"err": l.iter().map(|x| json!({"kind": format!("{:?}", x.kind), "name": x.name, "path": x.path, "at": format!("{:?}", x.at), "alts": x.alts})).collect::<Vec<_>>()}),
        },
        "observed": reply,
    })
}
