//! The reference interpreter: an independent, interpretive implementation of the documented
//! semantics of derived receivers over (spec, input tree). It predicts either the canonical value
//! or the exact set of error leaves (kind, location path, which item / value the span must lie in,
//! did-you-mean candidates). It never looks at darling's code or output.

use crate::input::*;
use crate::spec::*;
use crate::values::*;
use serde_json::{json, Value};

#[derive(Clone, Debug, PartialEq)]
pub enum LeafKind {
    Unknown,
    Duplicate,
    Missing,
    /// bare literal where a named item is required
    LiteralItem,
    /// the target rejects the value / form (wrong literal kind, out of range, wrong meta form)
    BadValue,
    TooFew,
    TooMany,
    /// rejected by a user and_then function
    Custom,
    /// name-value attribute form (`#[name = ..]`) and similar whole-attribute problems
    BadAttribute,
}

#[derive(Clone, Debug, PartialEq)]
pub enum Where {
    /// the span must lie inside this item
    Item(usize),
    /// the span must lie inside this item's value
    Value(usize),
    /// inside one element of this item's array value
    Element(usize, usize),
    /// the span must lie inside this item's name
    Name(usize),
    /// inside the attribute with this index (element-level inputs)
    Attr(usize),
    /// no enclosing item: may be unspanned
    Nowhere,
}

#[derive(Clone, Debug)]
pub struct Leaf {
    pub kind: LeafKind,
    /// outer-to-inner location path
    pub path: Vec<String>,
    pub at: Where,
    /// the item / field name the leaf is about
    pub name: String,
    /// for Unknown leaves: names valid at that position (candidates for a suggestion)
    pub alts: Vec<String>,
}

#[derive(Clone, Debug)]
pub enum Outcome {
    Ok(Value),
    Err(Vec<Leaf>),
}

fn leaf(kind: LeafKind, at: Where, name: &str) -> Leaf {
    Leaf {
        kind,
        path: vec![],
        at,
        name: name.to_string(),
        alts: vec![],
    }
}

fn prefix(mut leaves: Vec<Leaf>, seg: &str) -> Vec<Leaf> {
    for l in leaves.iter_mut() {
        l.path.insert(0, seg.to_string());
    }
    leaves
}

/// an unspanned leaf takes the span of the item it is reported through
fn span_default(mut leaves: Vec<Leaf>, at: Where) -> Vec<Leaf> {
    for l in leaves.iter_mut() {
        if l.at == Where::Nowhere {
            l.at = at.clone();
        }
    }
    leaves
}

pub struct Interp<'a> {
    pub recvs: &'a [Recv],
}

impl<'a> Interp<'a> {
    pub fn new(recvs: &'a [Recv]) -> Self {
        Interp { recvs }
    }
}

type Conv = Result<Value, Vec<Leaf>>;

impl<'a> Interp<'a> {
    // ------------------------------------------------------------ scalars

    fn scalar(&self, sc: Sc, it: &Item) -> Conv {
        let bad_item = || Err(vec![leaf(LeafKind::BadValue, Where::Item(it.id), &it.name)]);
        let bad_value = || Err(vec![leaf(LeafKind::BadValue, Where::Value(it.id), &it.name)]);
        match &it.kind {
            Kind::Word => {
                if sc == Sc::Bool {
                    Ok(json!(true))
                } else {
                    bad_item()
                }
            }
            Kind::List(_) => bad_item(),
            Kind::Literal(_) => bad_item(),
            Kind::Nv(l) => match (sc, l) {
                (Sc::Bool, Lit::Bool(b)) => Ok(json!(*b)),
                (Sc::Bool, Lit::Str { value, .. }) => value.parse::<bool>().map(|b| json!(b)).or_else(|_| bad_value()),
                (Sc::U8, Lit::Int { digits, .. }) => digits.parse::<u8>().map(|v| json!(v)).or_else(|_| bad_value()),
                (Sc::U8, Lit::Str { value, .. }) => value.parse::<u8>().map(|v| json!(v)).or_else(|_| bad_value()),
                (Sc::I64, Lit::Int { digits, .. }) => digits.parse::<i64>().map(|v| json!(v)).or_else(|_| bad_value()),
                (Sc::I64, Lit::Str { value, .. }) => value.parse::<i64>().map(|v| json!(v)).or_else(|_| bad_value()),
                (Sc::Str, Lit::Str { value, .. }) => Ok(json!(value)),
                (Sc::Char, Lit::Char(c)) => Ok(json!({"char": c.to_string()})),
                (Sc::Char, Lit::Str { value, .. }) => {
                    let mut cs = value.chars();
                    match (cs.next(), cs.next()) {
                        (Some(c), None) => Ok(json!({"char": c.to_string()})),
                        _ => bad_value(),
                    }
                }
                _ => bad_value(),
            },
        }
    }

    // ------------------------------------------------------------ any field type

    pub fn from_meta(&self, ty: &Ty, it: &Item) -> Conv {
        // a list whose contents are not a comma-separated sequence of items cannot be read by anything:
        // one syntax error, at the item
        if it.garbled() {
            return Err(vec![leaf(LeafKind::BadAttribute, Where::Item(it.id), &it.name)]);
        }
        match ty {
            Ty::Sc(sc) => self.scalar(*sc, it),
            Ty::Opt(t) => self.from_meta(t, it).map(|v| json!({ "some": v })),
            Ty::Map(t) => self.map_from_meta(t, it),
            Ty::PathList => match &it.kind {
                Kind::List(items) => {
                    let mut paths = vec![];
                    for inner in items {
                        match inner.kind {
                            Kind::Word => paths.push(canon_tokens(&inner.name)),
                            // fail-fast: the first item that is not a bare path ends the conversion
                            _ => return Err(vec![leaf(LeafKind::BadValue, Where::Item(inner.id), &inner.name)]),
                        }
                    }
                    Ok(json!({ "paths": paths }))
                }
                Kind::Nv(_) => Err(vec![leaf(LeafKind::BadValue, Where::Value(it.id), &it.name)]),
                _ => Err(vec![leaf(LeafKind::BadValue, Where::Item(it.id), &it.name)]),
            },
            Ty::Bytes => {
                let bad_value = || Err(vec![leaf(LeafKind::BadValue, Where::Value(it.id), &it.name)]);
                let elem = |l: &Lit| -> Option<u8> {
                    match l {
                        Lit::Int { digits, .. } => digits.parse::<u8>().ok(),
                        Lit::Str { value, .. } => value.parse::<u8>().ok(),
                        _ => None,
                    }
                };
                match &it.kind {
                    Kind::Nv(Lit::Array(elems)) => {
                        // fail-fast: the first element that is not a u8 ends the conversion; its error sits on the element
                        let mut out = vec![];
                        for (k, e) in elems.iter().enumerate() {
                            match elem(e) {
                                Some(v) => out.push(json!(v)),
                                None => return Err(vec![leaf(LeafKind::BadValue, Where::Element(it.id, k), &it.name)]),
                            }
                        }
                        Ok(Value::Array(out))
                    }
                    // a quoted array: the generator only writes plain decimal elements
                    Kind::Nv(Lit::Str { value, .. }) => {
                        let t = value.trim();
                        let Some(inner) = t.strip_prefix('[').and_then(|x| x.strip_suffix(']')) else { return bad_value() };
                        let mut out = vec![];
                        let parts: Vec<&str> = if inner.trim().is_empty() { vec![] } else { inner.split(',').collect() };
                        for p in parts {
                            match p.trim().parse::<u8>() {
                                Ok(v) => out.push(json!(v)),
                                Err(_) => return bad_value(),
                            }
                        }
                        Ok(Value::Array(out))
                    }
                    Kind::Nv(_) => bad_value(),
                    _ => Err(vec![leaf(LeafKind::BadValue, Where::Item(it.id), &it.name)]),
                }
            }
            Ty::Recv(id) | Ty::BoxRecv(id) => self.recv_from_meta(&self.recvs[*id], it),
        }
    }

    pub fn from_none(&self, ty: &Ty) -> Option<Value> {
        match ty {
            Ty::Sc(_) | Ty::Map(_) | Ty::PathList | Ty::Bytes => None,
            Ty::Opt(_) => Some(Value::Null),
            Ty::Recv(id) | Ty::BoxRecv(id) => {
                let r = &self.recvs[*id];
                if r.from_none {
                    Some(self.from_none_value(r))
                } else if let (Shape::Newtype(_), Some(f)) = (&r.shape, r.newtype_field()) {
                    // the only field's own default is what the newtype holds when nothing was written, as
                    // for a named field and for the field of a newtype variant
                    match (f.skip, f.default) {
                        (false, Def::Trait) => Some(newtype_value(r, zero(self.recvs, &f.ty))),
                        (false, Def::Func) => Some(newtype_value(r, field_sentinel(self.recvs, &f, Tag::FieldDefault, r.id))),
                        _ => None,
                    }
                } else {
                    None
                }
            }
        }
    }

    pub fn from_none_value(&self, r: &Recv) -> Value {
        match &r.shape {
            Shape::Struct(_) => tagged_struct(self.recvs, r, Tag::FromNone),
            _ => default_value(self.recvs, r),
        }
    }

    pub fn from_word_value(&self, r: &Recv) -> Option<Value> {
        match &r.shape {
            Shape::Struct(_) => {
                if r.from_word {
                    Some(tagged_struct(self.recvs, r, Tag::FromWord))
                } else {
                    None
                }
            }
            Shape::Unit => Some(default_value(self.recvs, r)),
            Shape::Newtype(_) => None,
            Shape::Enum(vs) => {
                if let Some(v) = vs.iter().find(|v| v.word && !v.skip) {
                    Some(enum_value(r, v, Value::Null))
                } else if r.from_word {
                    Some(default_value(self.recvs, r))
                } else {
                    None
                }
            }
        }
    }

    fn map_from_meta(&self, t: &Ty, it: &Item) -> Conv {
        let Kind::List(items) = &it.kind else {
            return Err(vec![leaf(LeafKind::BadValue, if matches!(it.kind, Kind::Nv(_)) { Where::Value(it.id) } else { Where::Item(it.id) }, &it.name)]);
        };
        let mut errors: Vec<Leaf> = vec![];
        let mut seen: Vec<String> = vec![];
        let mut m = serde_json::Map::new();
        for inner in items {
            if let Kind::Literal(_) = inner.kind {
                errors.push(leaf(LeafKind::LiteralItem, Where::Item(inner.id), ""));
                continue;
            }
            let key = path_string(&inner.name);
            let val = self.from_meta(t, inner).map_err(|l| prefix(l, &key));
            let dup = seen.contains(&key);
            if dup {
                errors.push(leaf(LeafKind::Duplicate, Where::Name(inner.id), &key));
            }
            match val {
                Ok(v) if !dup => {
                    m.insert(key.clone(), v);
                }
                Ok(_) => {}
                Err(l) => errors.extend(l),
            }
            seen.push(key);
        }
        if errors.is_empty() {
            Ok(json!({ "map": Value::Object(m) }))
        } else {
            Err(span_default(errors, Where::Item(it.id)))
        }
    }

    // ------------------------------------------------------------ derived FromMeta receivers

    pub fn recv_from_meta(&self, r: &Recv, it: &Item) -> Conv {
        // a newtype struct hands the whole item to its only field
        if let Shape::Newtype(t) = &r.shape {
            // the only field is converted like any field (its own with / map / and_then), then the
            // container's map / and_then act on the result
            let inner = match r.newtype_field() {
                Some(f) => self.convert_field(&f, it)?,
                None => self.from_meta(t, it)?,
            };
            let mut inner = inner;
            if let Ty::Sc(sc) = t {
                match r.post {
                    Post::None => {}
                    Post::Map => inner = apply_cmap(*sc, inner),
                    Post::AndThen => {
                        if cand_rejects(*sc, &inner) {
                            return Err(vec![leaf(LeafKind::Custom, Where::Nowhere, "")]);
                        }
                        inner = apply_cmap(*sc, inner);
                    }
                }
            }
            return Ok(newtype_value(r, inner));
        }
        match &it.kind {
            Kind::Word => match self.from_word_value(r) {
                Some(v) => Ok(v),
                None => Err(vec![leaf(LeafKind::BadValue, Where::Item(it.id), &it.name)]),
            },
            Kind::Literal(_) => Err(vec![leaf(LeafKind::BadValue, Where::Item(it.id), &it.name)]),
            Kind::Nv(l) => match (&r.shape, l) {
                (Shape::Enum(_), Lit::Str { value, .. }) => self.enum_from_string(r, value).map_err(|l| span_default(l, Where::Value(it.id))),
                _ => Err(vec![leaf(LeafKind::BadValue, Where::Value(it.id), &it.name)]),
            },
            Kind::List(items) => self.recv_from_list(r, items).map_err(|l| span_default(l, Where::Item(it.id))),
        }
    }

    pub fn recv_from_list(&self, r: &Recv, items: &[Item]) -> Conv {
        match &r.shape {
            Shape::Struct(fs) => {
                let mut st = StructState::new(fs);
                self.struct_items(r, fs, r.allow_unknown, items, &mut st);
                self.struct_finish(r, fs, st, true)
            }
            Shape::Enum(_) => self.enum_from_list(r, items),
            // a newtype hands everything on to its field, a list of items too (as a flatten member it is
            // given one)
            Shape::Newtype(Ty::Recv(inner)) | Shape::Newtype(Ty::BoxRecv(inner)) => {
                let mut v = self.recv_from_list(&self.recvs[*inner], items)?;
                // the field's own map / and_then acts on the converted value whichever way it was read
                if let (Some(f), Shape::Newtype(t)) = (r.newtype_field(), &r.shape) {
                    if f.post == Post::AndThen && self.flatten_rejects(t, &v) {
                        // the transform's own error, as returned: no location, no span
                        return Err(vec![leaf(LeafKind::Custom, Where::Nowhere, &f.rust)]);
                    }
                    if f.post != Post::None {
                        v = self.flatten_mark(t, v);
                    }
                }
                Ok(newtype_value(r, v))
            }
            // a unit struct accepts the bare word only
            Shape::Unit | Shape::Newtype(_) => Err(vec![leaf(LeafKind::BadValue, Where::Nowhere, "")]),
        }
    }

    pub fn enum_from_string(&self, r: &Recv, s: &str) -> Conv {
        let Shape::Enum(vs) = &r.shape else { unreachable!() };
        for v in vs.iter().filter(|v| !v.skip) {
            if variant_name(r, v) == s {
                return match &v.body {
                    VBody::Unit => Ok(enum_value(r, v, Value::Null)),
                    // the field's own default is its value-for-absent, as for a field of a struct; else the
                    // inner type is asked
                    VBody::Newtype(t) => match if v.nt_default == Def::Trait { Some(zero(self.recvs, t)) } else { self.from_none(t) } {
                        Some(inner) => Ok(enum_value(r, v, inner)),
                        None => Err(vec![leaf(LeafKind::BadValue, Where::Nowhere, s)]),
                    },
                    VBody::Struct(_) => Err(vec![leaf(LeafKind::BadValue, Where::Nowhere, s)]),
                };
            }
        }
        Err(vec![leaf(LeafKind::BadValue, Where::Nowhere, s)])
    }

    pub fn enum_from_list(&self, r: &Recv, items: &[Item]) -> Conv {
        let Shape::Enum(vs) = &r.shape else { unreachable!() };
        match items.len() {
            0 => return Err(vec![leaf(LeafKind::TooFew, Where::Nowhere, "")]),
            1 => {}
            // the first surplus item is the one at fault (C03: the most specific span, never none when
            // there are tokens to point at)
            _ => {
                // ... and what is wrong inside the items is still a mistake of its own (C02: none is dropped
                // because another was found first): each item is read as if it were the only one
                let mut errors = vec![leaf(LeafKind::TooMany, Where::Item(items[1].id), "")];
                for it in items {
                    if let Err(l) = self.enum_from_list(r, std::slice::from_ref(it)) {
                        errors.extend(l);
                    }
                }
                return Err(errors);
            }
        }
        let it = &items[0];
        // everything found from here on concerns the one nested item: that item is the offending
        // (or, for an absence, the enclosing) item
        if let Kind::Literal(_) = it.kind {
            return Err(vec![leaf(LeafKind::LiteralItem, Where::Item(it.id), "")]);
        }
        let name = name_string(&it.name);
        for v in vs.iter().filter(|v| !v.skip) {
            let vn = variant_name(r, v);
            if vn != name {
                continue;
            }
            let res = match &v.body {
                VBody::Unit => {
                    if matches!(it.kind, Kind::Word) {
                        Ok(enum_value(r, v, Value::Null))
                    } else {
                        Err(vec![leaf(LeafKind::BadValue, Where::Nowhere, &name)])
                    }
                }
                VBody::Newtype(_) => {
                    // the only field is converted like any field: its own with / map / and_then apply
                    let f = v.newtype_field().unwrap();
                    self.convert_field(&f, it).map(|p| enum_value(r, v, p)).map_err(|l| prefix(l, &vn))
                }
                VBody::Struct(fs) => {
                    let Kind::List(inner) = &it.kind else {
                        return Err(vec![leaf(LeafKind::BadValue, Where::Nowhere, &name)]);
                    };
                    // (a struct variant is parsed as a struct receiver: what is wrong inside its list, a
                    // syntax error too, is located under the variant's name)
                    if it.garbled() {
                        return Err(prefix(vec![leaf(LeafKind::BadAttribute, Where::Item(it.id), &it.name)], &vn));
                    }
                    let mut st = StructState::new(fs);
                    self.struct_items(r, fs, r.allow_unknown, inner, &mut st);
                    match self.struct_finish(r, fs, st, false) {
                        Ok(Value::Object(o)) => {
                            // struct_finish wraps in the receiver name; a variant payload is the bare field map
                            let payload = o.into_iter().next().map(|(_, v)| v).unwrap_or(Value::Null);
                            Ok(enum_value(r, v, payload))
                        }
                        Ok(other) => Ok(enum_value(r, v, other)),
                        Err(l) => Err(prefix(l, &vn)),
                    }
                }
            };
            return res.map_err(|l| span_default(l, Where::Item(it.id)));
        }
        let mut l = leaf(LeafKind::Unknown, Where::Item(it.id), &name);
        l.alts = vs.iter().filter(|v| !v.skip).map(|v| variant_name(r, v)).collect();
        Err(vec![l])
    }

    // ------------------------------------------------------------ struct bodies

    fn addressable_names(&self, r: &Recv, fs: &[Field]) -> Vec<String> {
        fs.iter().filter(|f| !f.skip && !f.flatten).map(|f| field_name(r, f)).collect()
    }

    /// walk one list of items, updating the state (shared by several attributes of one element)
    pub fn struct_items(&self, r: &Recv, fs: &[Field], allow_unknown: bool, items: &[Item], st: &mut StructState) {
        let has_flatten = fs.iter().any(|f| f.flatten);
        for it in items {
            if let Kind::Literal(_) = it.kind {
                st.errors.push(leaf(LeafKind::LiteralItem, Where::Item(it.id), ""));
                continue;
            }
            let name = name_string(&it.name);
            let idx = fs.iter().position(|f| !f.skip && !f.flatten && field_name(r, f) == name);
            match idx {
                Some(k) => {
                    let f = &fs[k];
                    if f.multiple {
                        let loc = format!("{name}[{}]", st.multi[k].len());
                        match self.convert_field(f, it) {
                            Ok(v) => st.multi[k].push(v),
                            Err(l) => st.errors.extend(prefix(span_default(l, Where::Item(it.id)), &loc)),
                        }
                    } else if !st.seen[k] {
                        st.seen[k] = true;
                        match self.convert_field(f, it) {
                            Ok(v) => st.value[k] = Some(v),
                            Err(l) => st.errors.extend(prefix(span_default(l, Where::Item(it.id)), &name)),
                        }
                    } else {
                        st.errors.push(leaf(LeafKind::Duplicate, Where::Item(it.id), &name));
                        // the repeat is a mistake of its own; what is wrong *inside* the repeated item is
                        // another one (C02: none is dropped because another was found first - whichever
                        // of the two occurrences carries it)
                        if let Err(l) = self.convert_field(f, it) {
                            st.errors.extend(prefix(span_default(l, Where::Item(it.id)), &name));
                        }
                    }
                }
                None => {
                    if has_flatten {
                        st.flatten.push(it.clone());
                    } else if allow_unknown {
                    } else {
                        let mut l = leaf(LeafKind::Unknown, Where::Item(it.id), &name);
                        l.alts = self.addressable_names(r, fs);
                        st.errors.push(l);
                    }
                }
            }
        }
    }

    fn convert_field(&self, f: &Field, it: &Item) -> Conv {
        let mut v = self.from_meta(&f.ty, it)?;
        if let (Ty::Opt(inner), true) = (&f.ty, f.with != With::None) {
            if let (Ty::Sc(sc), Some(x)) = (&**inner, v.get("some").cloned()) {
                v = json!({ "some": apply_with(*sc, x) });
            }
        }
        if let (Ty::Recv(_) | Ty::BoxRecv(_), false) = (&f.ty, f.flatten) {
            // (the only field of a newtype around a receiver)
            if f.post == Post::AndThen && self.flatten_rejects(&f.ty, &v) {
                return Err(vec![leaf(LeafKind::Custom, Where::Item(it.id), &it.name)]);
            }
            if f.post != Post::None {
                v = self.flatten_mark(&f.ty, v);
            }
        }
        if let Ty::Sc(sc) = f.ty {
            if f.with != With::None {
                v = apply_with(sc, v);
            }
            match f.post {
                Post::None => {}
                Post::Map => v = apply_map(sc, v),
                Post::AndThen => {
                    if and_then_rejects(sc, &v) {
                        return Err(vec![leaf(LeafKind::Custom, Where::Item(it.id), &it.name)]);
                    }
                    v = apply_map(sc, v);
                }
            }
        }
        Ok(v)
    }

    /// what the field holds when it was not supplied: own default > container default > nothing
    fn declared_default(&self, r: &Recv, fs_are_struct_body: bool, f: &Field, k: usize) -> Option<Value> {
        match f.default {
            Def::Trait => {
                return Some(if f.multiple { json!([]) } else { zero(self.recvs, &f.ty) });
            }
            Def::Func => return Some(field_sentinel(self.recvs, f, Tag::FieldDefault, k)),
            Def::None => {}
        }
        if fs_are_struct_body {
            if r.from_ident {
                return Some(field_sentinel(self.recvs, f, Tag::FromIdent, k));
            }
            match r.cdefault {
                Def::Trait | Def::Func => return Some(field_sentinel(self.recvs, f, Tag::ContainerDefault, k)),
                Def::None => {}
            }
        }
        if f.skip {
            return Some(field_zero(self.recvs, f));
        }
        None
    }

    pub fn struct_finish(&self, r: &Recv, fs: &[Field], st: StructState, is_struct_body: bool) -> Conv {
        self.struct_finish_opt(r, fs, st, is_struct_body, true)
    }

    /// `apply_post = false`: element-level receivers with magic fields run the container transform
    /// only after the body has been converted
    pub fn struct_finish_opt(&self, r: &Recv, fs: &[Field], mut st: StructState, is_struct_body: bool, apply_post: bool) -> Conv {
        // the flatten member receives every unclaimed item, in order
        let mut flat_value: Option<Value> = None;
        if let Some(k) = fs.iter().position(|f| f.flatten) {
            let f = &fs[k];
            let res = match &f.ty {
                Ty::Map(t) => {
                    let fake = Item {
                        id: usize::MAX,
                        name: String::new(),
                        kind: Kind::List(st.flatten.clone()),
                        delim: 0,
                    };
                    // the hand-off adds no location and no span of its own
                    self.map_from_meta(t, &fake).map_err(|ls| {
                        ls.into_iter()
                            .map(|mut l| {
                                if l.at == Where::Item(usize::MAX) {
                                    l.at = Where::Nowhere;
                                }
                                l
                            })
                            .collect()
                    })
                }
                Ty::Recv(id) | Ty::BoxRecv(id) => self.recv_from_list(&self.recvs[*id], &st.flatten),
                _ => Ok(Value::Null),
            };
            match res {
                Ok(mut v) => {
                    if f.post == Post::AndThen && self.flatten_rejects(&f.ty, &v) {
                        // the transform's own error, as returned: no location, no span
                        st.errors.push(leaf(LeafKind::Custom, Where::Nowhere, &f.rust));
                    } else {
                        if f.post != Post::None {
                            v = self.flatten_mark(&f.ty, v);
                        }
                        flat_value = Some(v);
                    }
                }
                Err(ls) => {
                    // names the member did not know either are offered the parent's names too
                    let parent_names = self.addressable_names(r, fs);
                    for mut l in ls {
                        if l.kind == LeafKind::Unknown && l.path.is_empty() {
                            for n in &parent_names {
                                if !l.alts.contains(n) {
                                    l.alts.push(n.clone());
                                }
                            }
                        }
                        st.errors.push(l);
                    }
                }
            }
        }
        // required fields
        let mut defaults: Vec<Option<Value>> = vec![];
        for (k, f) in fs.iter().enumerate() {
            let d = self.declared_default(r, is_struct_body, f, k);
            if !f.multiple && !f.flatten && d.is_none() && !st.seen[k] {
                match self.from_none(&f.ty) {
                    Some(v) => st.value[k] = Some(v),
                    None => st.errors.push(leaf(LeafKind::Missing, Where::Nowhere, &field_name(r, f))),
                }
            }
            defaults.push(d);
        }
        if !st.errors.is_empty() {
            return Err(st.errors);
        }
        let mut m = serde_json::Map::new();
        for (k, f) in fs.iter().enumerate() {
            let v = if f.flatten {
                flat_value.clone().unwrap_or(Value::Null)
            } else if f.multiple {
                if !st.multi[k].is_empty() {
                    Value::Array(st.multi[k].clone())
                } else {
                    defaults[k].clone().unwrap_or_else(|| json!([]))
                }
            } else {
                match st.value[k].take() {
                    Some(v) => v,
                    None => defaults[k].clone().unwrap_or(Value::Null),
                }
            };
            m.insert(f.rust.clone(), v);
        }
        let mut outer = serde_json::Map::new();
        outer.insert(r.name(), Value::Object(m));
        let v = Value::Object(outer);
        if is_struct_body && apply_post {
            self.container_post(r, v)
        } else {
            Ok(v)
        }
    }

    /// container-level map / and_then: once, on the finished value
    pub fn container_post(&self, r: &Recv, mut v: Value) -> Conv {
        if r.post == Post::None {
            return Ok(v);
        }
        let fs = r.fields();
        if let Some(a) = anchor_field(r) {
            if let Ty::Sc(sc) = fs[a].ty {
                if let Some(m) = v.get_mut(r.name()).and_then(|o| o.as_object_mut()) {
                    let cur = m.get(&fs[a].rust).cloned().unwrap_or(Value::Null);
                    if r.post == Post::AndThen && cand_rejects(sc, &cur) {
                        return Err(vec![leaf(LeafKind::Custom, Where::Nowhere, "")]);
                    }
                    m.insert(fs[a].rust.clone(), apply_cmap(sc, cur));
                }
            }
        }
        Ok(v)
    }

    fn flatten_rejects(&self, ty: &Ty, v: &Value) -> bool {
        let (Ty::Recv(id) | Ty::BoxRecv(id)) = ty else { return false };
        let r = &self.recvs[*id];
        if let Shape::Newtype(inner) = &r.shape {
            // a newtype around a struct receiver: the mark concerns the wrapped value
            return v.get(r.name()).map(|x| self.flatten_rejects(inner, x)).unwrap_or(false);
        }
        let Some(a) = anchor_field(r) else { return false };
        let f = &r.fields()[a];
        match v.get(r.name()).and_then(|o| o.get(&f.rust)) {
            Some(cur) => match f.ty {
                Ty::Sc(Sc::I64) => cur.as_i64() == Some(42),
                Ty::Sc(Sc::Str) => cur.as_str() == Some("x"),
                _ => false,
            },
            None => false,
        }
    }

    /// the visible mark a `map` on the flatten member leaves on the member's anchor field
    fn flatten_mark(&self, ty: &Ty, v: Value) -> Value {
        let (Ty::Recv(id) | Ty::BoxRecv(id)) = ty else { return v };
        let r = &self.recvs[*id];
        if let Shape::Newtype(inner) = &r.shape {
            let mut v = v;
            if let Some(x) = v.get_mut(r.name()) {
                *x = self.flatten_mark(inner, x.take());
            }
            return v;
        }
        let Some(a) = anchor_field(r) else { return v };
        let f = &r.fields()[a];
        let mut v = v;
        if let Some(obj) = v.get_mut(r.name()).and_then(|o| o.as_object_mut()) {
            if let Some(cur) = obj.get(&f.rust).cloned() {
                let marked = match f.ty {
                    Ty::Sc(Sc::I64) => json!(cur.as_i64().unwrap_or(0) + 40_000_000),
                    Ty::Sc(Sc::Str) => json!(format!("fm({})", cur.as_str().unwrap_or(""))),
                    _ => cur,
                };
                obj.insert(f.rust.clone(), marked);
            }
        }
        v
    }
}

pub struct StructState {
    pub seen: Vec<bool>,
    pub value: Vec<Option<Value>>,
    pub multi: Vec<Vec<Value>>,
    pub flatten: Vec<Item>,
    pub errors: Vec<Leaf>,
}

impl StructState {
    pub fn new(fs: &[Field]) -> Self {
        StructState {
            seen: vec![false; fs.len()],
            value: vec![None; fs.len()],
            multi: vec![vec![]; fs.len()],
            flatten: vec![],
            errors: vec![],
        }
    }
}

// ==================================================================== element-level receivers

use crate::gen::{Attr, AttrKind};

/// the path of an attribute, segments joined by `::`, a leading `::` kept: what `attributes(..)` /
/// `forward_attrs(..)` entries are compared with
pub fn attr_key(a: &Attr) -> String {
    match &a.kind {
        AttrKind::Foreign(text) => {
            if text.starts_with("///") {
                return "doc".into();
            }
            // #[path ...]
            let inner = text.trim_start_matches("#[").trim_end_matches(']');
            let end = inner.find(|c: char| !(c.is_alphanumeric() || c == '_' || c == ':')).unwrap_or(inner.len());
            inner[..end].replace("r#", "")
        }
        // (`r#` is spelling, not part of a segment's name)
        _ => a.name.replace("r#", ""),
    }
}

pub fn canon_tokens(text: &str) -> String {
    fn push(ts: proc_macro2::TokenStream, out: &mut String) {
        use proc_macro2::{Delimiter, TokenTree};
        for tt in ts {
            match tt {
                TokenTree::Group(g) => {
                    let (o, c) = match g.delimiter() {
                        Delimiter::Parenthesis => ("(", ")"),
                        Delimiter::Brace => ("{", "}"),
                        Delimiter::Bracket => ("[", "]"),
                        Delimiter::None => ("", ""),
                    };
                    if !o.is_empty() {
                        out.push_str(o);
                        out.push(' ');
                    }
                    push(g.stream(), out);
                    if !c.is_empty() {
                        out.push_str(c);
                        out.push(' ');
                    }
                }
                TokenTree::Punct(p) => {
                    out.push(p.as_char());
                    out.push(' ');
                }
                TokenTree::Ident(i) => {
                    out.push_str(&i.to_string());
                    out.push(' ');
                }
                TokenTree::Literal(l) => {
                    out.push_str(&l.to_string());
                    out.push(' ');
                }
            }
        }
    }
    let mut out = String::new();
    if let Ok(ts) = syn::parse_str::<proc_macro2::TokenStream>(text) {
        push(ts, &mut out);
    }
    out
}

pub struct ElementEval {
    pub outcome: Outcome,
    /// indices of the attributes that must be forwarded, in order
    pub forwarded: Vec<usize>,
    /// the derived code is expected to panic (pre-finding F11 shape); None when fixed upstream
    pub consumed: Vec<usize>,
}

impl<'a> Interp<'a> {
    /// attribute layer of an element-level receiver (no magic fields other than `attrs`)
    pub fn element(&self, r: &Recv, attrs: &[Attr], attr_texts: &[String]) -> ElementEval {
        self.element_with(r, attrs, attr_texts, vec![])
    }

    /// `extra`: further errors of the attribute layer (shape validation)
    pub fn element_with(&self, r: &Recv, attrs: &[Attr], attr_texts: &[String], extra: Vec<Leaf>) -> ElementEval {
        self.element_opt(r, attrs, attr_texts, extra, true)
    }

    pub fn element_with_deferred_post(&self, r: &Recv, attrs: &[Attr], attr_texts: &[String], extra: Vec<Leaf>) -> ElementEval {
        self.element_opt(r, attrs, attr_texts, extra, false)
    }

    fn element_opt(&self, r: &Recv, attrs: &[Attr], attr_texts: &[String], extra: Vec<Leaf>, apply_post: bool) -> ElementEval {
        let fs = r.fields();
        let mut st = StructState::new(fs);
        let mut forwarded = vec![];
        let mut consumed = vec![];
        let will_parse_any = !r.attr_names.is_empty();
        let filter_nonempty = match &r.forward {
            Fwd::None => false,
            Fwd::All => true,
            Fwd::Only(l) => !l.is_empty(),
        };
        let will_fwd_any = filter_nonempty && r.attrs_field.is_some();
        if will_parse_any || will_fwd_any {
            for a in attrs.iter() {
                let key = attr_key(a);
                if will_parse_any && r.attr_names.iter().any(|n| *n == key) {
                    consumed.push(a.gid);
                    match &a.kind {
                        AttrKind::Word => {}
                        AttrKind::NameValue(_) => st.errors.push(Leaf {
                            kind: LeafKind::BadAttribute,
                            path: vec![],
                            at: Where::Attr(a.gid),
                            name: a.name.clone(),
                            alts: vec![],
                        }),
                        // (its contents are not a list of items: one syntax error, nothing in it is read)
                        AttrKind::List(items, d) if *d >= 10 && items.len() >= 2 => st.errors.push(Leaf {
                            kind: LeafKind::BadAttribute,
                            path: vec![],
                            at: Where::Attr(a.gid),
                            name: a.name.clone(),
                            alts: vec![],
                        }),
                        AttrKind::List(items, _) => {
                            if !items.is_empty() {
                                self.struct_items(r, fs, r.allow_unknown, items, &mut st);
                            }
                        }
                        AttrKind::Foreign(_) => st.errors.push(Leaf {
                            kind: LeafKind::BadAttribute,
                            path: vec![],
                            at: Where::Attr(a.gid),
                            name: a.name.clone(),
                            alts: vec![],
                        }),
                    }
                    continue;
                }
                if will_fwd_any {
                    let fwd = match &r.forward {
                        Fwd::All => true,
                        Fwd::Only(l) => l.iter().any(|n| *n == key),
                        Fwd::None => false,
                    };
                    if fwd {
                        forwarded.push(a.gid);
                    }
                }
            }
        }
        st.errors.extend(extra);
        let outcome = match self.struct_finish_opt(r, fs, st, true, apply_post) {
            Ok(mut v) => {
                if let Some(with) = r.attrs_field {
                    let val = if with {
                        json!(forwarded.len())
                    } else {
                        Value::Array(forwarded.iter().map(|i| json!({"tokens": canon_tokens(&attr_texts[*i])})).collect())
                    };
                    if let Some(obj) = v.get_mut(r.name()).and_then(|o| o.as_object_mut()) {
                        obj.insert("@attrs".into(), val);
                    }
                }
                Outcome::Ok(v)
            }
            Err(l) => Outcome::Err(l),
        };
        ElementEval {
            outcome,
            forwarded,
            consumed,
        }
    }
}
