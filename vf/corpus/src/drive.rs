//! Writing a generated corpus to disk, compiling it against /repo's working tree, and
//! talking to the compiled shard drivers over the line protocol.

use serde_json::{json, Value};
use std::collections::HashMap;
use std::io::{BufRead, BufReader, Write};
use std::path::{Path, PathBuf};
use std::process::{Child, ChildStdin, ChildStdout, Command, Stdio};

pub struct Corpus {
    pub dir: PathBuf,
    pub shards: Vec<Shard>,
}

pub struct Shard {
    pub name: String,
    /// top-level receiver ids compiled into this shard
    pub ids: Vec<usize>,
    pub source: String,
    pub built: bool,
}

pub struct CompileError {
    pub shard: String,
    pub line: usize,
    pub message: String,
    pub code: String,
}

fn write_if_changed(p: &Path, s: &str) {
    if std::fs::read_to_string(p).map(|old| old == s).unwrap_or(false) {
        return;
    }
    if let Some(d) = p.parent() {
        let _ = std::fs::create_dir_all(d);
    }
    std::fs::write(p, s).unwrap_or_else(|e| vfcommon::die(&format!("cannot write {}: {e}", p.display())));
}

impl Corpus {
    /// `darling_only`: the shard crates depend on nothing but darling (C20's self-containment).
    pub fn write(dir: &Path, shards: Vec<Shard>, darling_only: bool, suggestions: bool) -> Corpus {
        let _ = std::fs::create_dir_all(dir);
        // drop stale shard directories of an earlier, larger corpus
        if let Ok(rd) = std::fs::read_dir(dir) {
            for e in rd.flatten() {
                let n = e.file_name().to_string_lossy().to_string();
                if n.starts_with("shard") && !shards.iter().any(|s| s.name == n) {
                    let _ = std::fs::remove_dir_all(e.path());
                }
            }
        }
        let members: Vec<String> = shards.iter().map(|s| format!("\"{}\"", s.name)).collect();
        write_if_changed(
            &dir.join("Cargo.toml"),
            &format!(
                "[workspace]\nmembers = [{}]\nresolver = \"2\"\n\n[profile.dev]\ndebug = false\nopt-level = 0\nincremental = false\ncodegen-units = 4\n",
                members.join(", ")
            ),
        );
        let lock = Path::new("/verif/vf/Cargo.lock");
        if lock.exists() && !dir.join("Cargo.lock").exists() {
            let _ = std::fs::copy(lock, dir.join("Cargo.lock"));
        }
        for s in &shards {
            let deps = if darling_only {
                "darling = { path = \"/repo\" }\n".to_string()
            } else if suggestions {
                "darling = { path = \"/repo\" }\nsyn = { version = \"2.0.15\", features = [\"full\", \"extra-traits\"] }\nvf-support = { path = \"/verif/vf/corpus/support\" }\n".to_string()
            } else {
                "darling = { path = \"/repo\", default-features = false }\nsyn = { version = \"2.0.15\", features = [\"full\", \"extra-traits\"] }\nvf-support = { path = \"/verif/vf/corpus/support\", default-features = false }\n".to_string()
            };
            write_if_changed(&dir.join(&s.name).join("Cargo.toml"), &format!("[package]\nname = \"{}\"\nversion = \"0.0.0\"\nedition = \"2021\"\n\n[dependencies]\n{deps}", s.name));
            write_if_changed(&dir.join(&s.name).join("src/main.rs"), &s.source);
        }
        Corpus {
            dir: dir.to_path_buf(),
            shards,
        }
    }

    /// cargo build of the whole generated workspace; returns rustc errors mapped to shards.
    pub fn build(&mut self, target_dir: &Path) -> Result<Vec<CompileError>, String> {
        let out = Command::new("cargo")
            .args(["build", "--offline", "--workspace", "--keep-going", "--message-format=json", "-q"])
            .current_dir(&self.dir)
            .env("CARGO_NET_OFFLINE", "true")
            .env("CARGO_TARGET_DIR", target_dir)
            .env("RUSTFLAGS", "-Awarnings")
            .output()
            .map_err(|e| format!("cannot run cargo: {e}"))?;
        let mut errors = vec![];
        let mut failed: Vec<String> = vec![];
        for line in String::from_utf8_lossy(&out.stdout).lines() {
            let Ok(v) = serde_json::from_str::<Value>(line) else { continue };
            if v["reason"] == "compiler-message" && v["message"]["level"] == "error" {
                let target = v["target"]["name"].as_str().unwrap_or("").to_string();
                let msg = v["message"]["message"].as_str().unwrap_or("").to_string();
                if msg.starts_with("aborting due to") {
                    continue;
                }
                let code = v["message"]["code"]["code"].as_str().unwrap_or("").to_string();
                let line_no = v["message"]["spans"].as_array().and_then(|s| s.iter().find(|sp| sp["is_primary"] == true).or(s.first())).and_then(|sp| sp["line_start"].as_u64()).unwrap_or(0) as usize;
                if !failed.contains(&target) {
                    failed.push(target.clone());
                }
                errors.push(CompileError {
                    shard: target,
                    line: line_no,
                    message: msg,
                    code,
                });
            }
        }
        let stderr = String::from_utf8_lossy(&out.stderr).to_string();
        for s in self.shards.iter_mut() {
            s.built = !failed.contains(&s.name) && target_dir.join("debug").join(&s.name).exists();
        }
        if !out.status.success() && errors.is_empty() {
            return Err(format!("cargo build failed without compiler messages: {}", stderr.lines().rev().take(15).collect::<Vec<_>>().join(" | ")));
        }
        Ok(errors)
    }
}

pub struct Driver {
    child: Child,
    stdin: ChildStdin,
    stdout: BufReader<ChildStdout>,
    pub name: String,
    pub sent: u64,
}

pub enum Reply {
    Value(Value),
    /// the driver process died while handling this request
    Died(String),
}

impl Driver {
    pub fn spawn(target_dir: &Path, name: &str) -> Result<Driver, String> {
        let exe = target_dir.join("debug").join(name);
        let mut child = Command::new(&exe).stdin(Stdio::piped()).stdout(Stdio::piped()).stderr(Stdio::null()).spawn().map_err(|e| format!("cannot start {}: {e}", exe.display()))?;
        let stdin = child.stdin.take().unwrap();
        let stdout = BufReader::new(child.stdout.take().unwrap());
        Ok(Driver {
            child,
            stdin,
            stdout,
            name: name.to_string(),
            sent: 0,
        })
    }

    pub fn call(&mut self, recv: usize, entry: &str, src: &str) -> Reply {
        self.sent += 1;
        let req = json!({"recv": recv, "entry": entry, "src": src});
        if writeln!(self.stdin, "{}", req).is_err() || self.stdin.flush().is_err() {
            return Reply::Died(self.status());
        }
        let mut line = String::new();
        match self.stdout.read_line(&mut line) {
            Ok(0) | Err(_) => Reply::Died(self.status()),
            Ok(_) => match serde_json::from_str::<Value>(&line) {
                Ok(v) => Reply::Value(v),
                Err(e) => Reply::Value(json!({"bad_reply": e.to_string(), "line": line})),
            },
        }
    }

    fn status(&mut self) -> String {
        match self.child.wait() {
            Ok(s) => format!("{s:?}"),
            Err(e) => e.to_string(),
        }
    }
}

impl Drop for Driver {
    fn drop(&mut self) {
        let _ = self.child.kill();
        let _ = self.child.wait();
    }
}

/// Map a line number of a shard source to the receiver whose section contains it.
pub fn recv_at_line(source: &str, line: usize) -> Option<usize> {
    let mut cur = None;
    for (i, l) in source.lines().enumerate() {
        if let Some(rest) = l.strip_prefix("// ---- receiver ") {
            cur = rest.split_whitespace().next().and_then(|n| n.parse().ok());
        }
        if i + 1 >= line {
            break;
        }
    }
    cur
}

pub fn shard_of(corpus: &Corpus) -> HashMap<usize, usize> {
    let mut m = HashMap::new();
    for (i, s) in corpus.shards.iter().enumerate() {
        for id in &s.ids {
            m.insert(*id, i);
        }
    }
    m
}
