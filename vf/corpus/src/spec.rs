//! Receiver specifications: the "programs" of the corpus. A spec is plain data; `emit.rs`
//! turns it into Rust source using darling's derives, `interp.rs` evaluates inputs on it
//! according to the documented semantics without ever looking at darling.

use vfcommon::Rng;

#[derive(Clone, Copy, PartialEq, Eq, Hash, Debug)]
pub enum Trait {
    Meta,
    DeriveInput,
    Field,
    Variant,
    TypeParam,
    Attributes,
}

impl Trait {
    pub fn derive_name(self) -> &'static str {
        match self {
            Trait::Meta => "FromMeta",
            Trait::DeriveInput => "FromDeriveInput",
            Trait::Field => "FromField",
            Trait::Variant => "FromVariant",
            Trait::TypeParam => "FromTypeParam",
            Trait::Attributes => "FromAttributes",
        }
    }
    pub fn entry(self) -> &'static str {
        match self {
            Trait::Meta => "from_list",
            Trait::DeriveInput => "from_derive_input",
            Trait::Field => "from_field",
            Trait::Variant => "from_variant",
            Trait::TypeParam => "from_type_param",
            Trait::Attributes => "from_attributes",
        }
    }
    pub fn element_level(self) -> bool {
        self != Trait::Meta
    }
}

pub const ELEMENT_TRAITS: [Trait; 5] = [Trait::DeriveInput, Trait::Field, Trait::Variant, Trait::TypeParam, Trait::Attributes];

#[derive(Clone, Copy, PartialEq, Eq, Hash, Debug)]
pub enum Sc {
    Bool,
    U8,
    I64,
    Str,
    Char,
}

#[derive(Clone, PartialEq, Eq, Hash, Debug)]
pub enum Ty {
    Sc(Sc),
    Opt(Box<Ty>),
    Map(Box<Ty>),
    /// darling::util::PathList — a fail-fast collection of bare paths
    PathList,
    /// Vec<u8>: an array expression of unsigned integers (`x = [1, 2, "3"]` or a quoted array), fail-fast
    Bytes,
    /// a derived FromMeta receiver (struct or enum), by id
    Recv(usize),
    BoxRecv(usize),
}

#[derive(Clone, Copy, PartialEq, Eq, Hash, Debug)]
pub enum Def {
    None,
    Trait,
    Func,
}

#[derive(Clone, Copy, PartialEq, Eq, Hash, Debug)]
pub enum With {
    None,
    Path,
    Closure,
}

#[derive(Clone, Copy, PartialEq, Eq, Hash, Debug)]
pub enum Post {
    None,
    Map,
    AndThen,
}

#[derive(Clone, Copy, PartialEq, Eq, Hash, Debug)]
pub enum Rule {
    Lower,
    Pascal,
    Camel,
    Snake,
    Screaming,
    Kebab,
}

pub const RULES: [Rule; 6] = [Rule::Lower, Rule::Pascal, Rule::Camel, Rule::Snake, Rule::Screaming, Rule::Kebab];

impl Rule {
    pub fn text(self) -> &'static str {
        match self {
            Rule::Lower => "lowercase",
            Rule::Pascal => "PascalCase",
            Rule::Camel => "camelCase",
            Rule::Snake => "snake_case",
            Rule::Screaming => "SCREAMING_SNAKE_CASE",
            Rule::Kebab => "kebab-case",
        }
    }
}

#[derive(Clone, Debug)]
pub struct Field {
    pub rust: String,
    pub ty: Ty,
    pub multiple: bool,
    pub rename: Option<String>,
    pub default: Def,
    pub skip: bool,
    pub flatten: bool,
    pub with: With,
    pub post: Post,
    /// spelled `#[darling(..)]` split: option texts are distributed over 1..2 attributes
    pub split_attrs: bool,
    /// the field's Rust type is `Foreign<T>`, a type of the user's that has no `FromMeta` impl: legal
    /// only with a converter of its own (`with`) and a default of its own (so that nothing asks the
    /// type for a value-for-absent) - the documented trait requirements
    pub foreign: bool,
}

#[derive(Clone, Debug)]
pub enum VBody {
    Unit,
    Newtype(Ty),
    Struct(Vec<Field>),
}

#[derive(Clone, Debug)]
pub struct Variant {
    pub rust: String,
    pub rename: Option<String>,
    pub skip: bool,
    pub word: bool,
    /// spelled `#[darling(word = false)]`: an explicit opt-out, never the word variant
    pub word_false: bool,
    pub body: VBody,
    /// options on the only field of a newtype variant
    pub nt_with: With,
    pub nt_post: Post,
    /// `default` on the only field of a newtype variant: the value the string form gives the variant
    pub nt_default: Def,
    pub nt_foreign: bool,
}

impl Variant {
    /// the only field of a newtype variant, carrying the variant's inner options (helper names are
    /// derived from the variant's own name)
    pub fn newtype_field(&self) -> Option<Field> {
        match &self.body {
            VBody::Newtype(t) => Some(Field {
                rust: format!("nt_{}", self.rust.trim_start_matches("r#").to_lowercase()),
                ty: t.clone(),
                multiple: false,
                rename: None,
                default: self.nt_default,
                skip: false,
                flatten: false,
                with: self.nt_with,
                post: self.nt_post,
                split_attrs: false,
                foreign: self.nt_foreign,
            }),
            _ => None,
        }
    }
}

#[derive(Clone, Debug)]
pub enum Shape {
    Struct(Vec<Field>),
    Enum(Vec<Variant>),
    /// `struct R;` — accepts the bare word only
    Unit,
    /// `struct R(T);` — delegates everything to T
    Newtype(Ty),
}

#[derive(Clone, PartialEq, Eq, Debug)]
pub enum Fwd {
    None,
    All,
    Only(Vec<String>),
}

#[derive(Clone, Copy, PartialEq, Eq, Hash, Debug)]
pub enum MagicKind {
    Ident,
    Vis,
    Generics,
    Ty,
    Bounds,
    Default,
    Discriminant,
    /// `data: ast::Data<V, F>` with the given FromVariant / FromField receivers (None = syn types / Ignored)
    Data,
    /// `fields: ast::Fields<F>`
    Fields,
}

#[derive(Clone, Copy, PartialEq, Eq, Hash, Debug)]
pub enum Wrap {
    Plain,
    Spanned,
    WithOriginal,
    Result,
}

#[derive(Clone, Debug)]
pub struct Magic {
    pub kind: MagicKind,
    pub wrap: Wrap,
    /// for Data / Fields: receiver ids of the element receivers (FromVariant, FromField)
    pub variant_recv: Option<usize>,
    pub field_recv: Option<usize>,
    /// `#[darling(with = ..)]` on `data`
    pub with: bool,
    /// `generics` typed as darling's own `ast::Generics<ast::GenericParam>` instead of `syn::Generics`
    pub own_generics: bool,
    /// `generics` typed `ast::Generics<ast::GenericParam<TP>>` with `TP` a derived FromTypeParam receiver:
    /// its id. The type parameters of the input are then read by that receiver (body layer).
    pub tparam_recv: Option<usize>,
}

#[derive(Clone, Debug)]
pub struct Recv {
    pub id: usize,
    pub tr: Trait,
    pub rename_all: Option<Rule>,
    pub cdefault: Def,
    pub from_ident: bool,
    pub post: Post,
    pub allow_unknown: bool,
    pub from_word: bool,
    pub from_none: bool,
    pub attr_names: Vec<String>,
    pub forward: Fwd,
    /// `attrs` magic field: None, plain Vec<Attribute>, or `with` converter (count of attrs)
    pub attrs_field: Option<bool>,
    pub supports: Option<Vec<String>>,
    pub magic: Vec<Magic>,
    pub shape: Shape,
    /// generic parameter list text and where clause (C20 hostile profile); empty otherwise
    pub generics: String,
    /// options on the only field of a newtype struct (`struct R(#[darling(with = .., map = ..)] T);`)
    pub inner_with: With,
    pub inner_post: Post,
    /// `skip` written on the only field of a newtype struct: a newtype hands its input to that
    /// field whatever the option says, so the option changes nothing (and the field's type
    /// parameter still needs its bound)
    pub inner_skip: bool,
    /// the only field of the newtype is typed `Foreign<T>` (no FromMeta impl, has Default)
    pub inner_foreign: bool,
    /// `default` / `default = fn` on the only field of the newtype: its value when the item is absent
    pub inner_default: Def,
    /// `multiple` on the only field of the newtype, typed `Vec<T>` (compile-only profile: known finding K3)
    pub inner_multiple: bool,
}

impl Recv {
    /// the only field of a newtype struct, as a field carrying the newtype's inner options
    pub fn newtype_field(&self) -> Option<Field> {
        match &self.shape {
            Shape::Newtype(t) if self.tr == Trait::Meta => Some(Field {
                rust: "nt".to_string(),
                ty: t.clone(),
                multiple: self.inner_multiple,
                rename: None,
                default: self.inner_default,
                skip: self.inner_skip,
                flatten: false,
                with: self.inner_with,
                post: self.inner_post,
                split_attrs: false,
                foreign: self.inner_foreign,
            }),
            _ => None,
        }
    }

    pub fn name(&self) -> String {
        format!("R{}", self.id)
    }
    pub fn fields(&self) -> &[Field] {
        match &self.shape {
            Shape::Struct(f) => f,
            _ => &[],
        }
    }
    pub fn is_enum(&self) -> bool {
        matches!(self.shape, Shape::Enum(_))
    }
}

/// Apply a case rule to a snake_case field name (own implementation of the six rules).
pub fn rule_field(rule: Option<Rule>, name: &str) -> String {
    let name = name.strip_prefix("r#").unwrap_or(name);
    let pascal = |s: &str| -> String {
        let mut out = String::new();
        let mut up = true;
        for ch in s.chars() {
            if ch == '_' {
                up = true;
            } else if up {
                out.extend(ch.to_uppercase());
                up = false;
            } else {
                out.push(ch);
            }
        }
        out
    };
    match rule {
        None | Some(Rule::Lower) | Some(Rule::Snake) => name.to_string(),
        Some(Rule::Pascal) => pascal(name),
        Some(Rule::Camel) => {
            let p = pascal(name);
            let mut cs = p.chars();
            match cs.next() {
                Some(f) => f.to_lowercase().collect::<String>() + cs.as_str(),
                None => p,
            }
        }
        Some(Rule::Screaming) => name.to_uppercase(),
        Some(Rule::Kebab) => name.replace('_', "-"),
    }
}

/// Apply a case rule to a PascalCase variant name; enums default to snake_case.
pub fn rule_variant(rule: Option<Rule>, name: &str) -> String {
    // the `r#` of a raw identifier is spelling, not part of the variant's name
    let name = name.strip_prefix("r#").unwrap_or(name);
    let snake = |s: &str| -> String {
        let mut out = String::new();
        for (i, ch) in s.chars().enumerate() {
            if i > 0 && ch.is_uppercase() {
                out.push('_');
            }
            out.extend(ch.to_lowercase());
        }
        out
    };
    match rule.unwrap_or(Rule::Snake) {
        Rule::Pascal => name.to_string(),
        Rule::Lower => name.to_lowercase(),
        Rule::Camel => {
            let mut cs = name.chars();
            match cs.next() {
                Some(f) => f.to_lowercase().collect::<String>() + cs.as_str(),
                None => String::new(),
            }
        }
        Rule::Snake => snake(name),
        Rule::Screaming => snake(name).to_uppercase(),
        Rule::Kebab => snake(name).replace('_', "-"),
    }
}

/// the `r#` of a raw identifier is spelling, in whichever segment of a name it stands
pub fn unraw_segments(n: &str) -> String {
    n.split("::").map(|seg| seg.strip_prefix("r#").unwrap_or(seg)).collect::<Vec<_>>().join("::")
}

pub fn field_name(r: &Recv, f: &Field) -> String {
    match &f.rename {
        // (a rename spelled as a raw identifier names the identifier: `r#` is spelling)
        Some(n) => unraw_segments(n),
        None => rule_field(r.rename_all, &f.rust),
    }
}

pub fn variant_name(r: &Recv, v: &Variant) -> String {
    match &v.rename {
        Some(n) => unraw_segments(n),
        None => rule_variant(r.rename_all, &v.rust),
    }
}

/// a name a user can write as a meta item name (an identifier, or several joined by `::`)
pub fn addressable(name: &str) -> bool {
    if name.contains("::") {
        return name.split("::").all(addressable);
    }
    let mut cs = name.chars();
    match cs.next() {
        Some(c) if c.is_alphabetic() || c == '_' => {}
        _ => return false,
    }
    // a keyword is written as a raw identifier (`r#type = 1`); the path keywords and `_` cannot be
    name.chars().all(|c| c.is_alphanumeric() || c == '_') && !["crate", "self", "super", "Self", "_"].contains(&name)
}

/// a name as it has to be written in source: keywords as raw identifiers
pub fn written(name: &str) -> String {
    name.split("::").map(|seg| if KEYWORDS.contains(&seg.trim()) && !["crate", "self", "super", "Self", "_"].contains(&seg.trim()) { format!("r#{}", seg.trim()) } else { seg.to_string() }).collect::<Vec<_>>().join("::")
}

pub const KEYWORDS: [&str; 52] = [
    "as", "break", "const", "continue", "crate", "else", "enum", "extern", "false", "fn", "for", "if", "impl", "in", "let", "loop", "match", "mod", "move", "mut", "pub", "ref", "return", "self", "Self", "static", "struct", "super", "trait", "true", "type", "unsafe", "use", "where", "while", "async", "await", "dyn", "try", "_", "abstract", "become", "box", "do", "final", "macro", "override", "priv", "typeof", "unsized", "virtual", "yield",
];

pub const FIELD_POOL: [&str; 20] = ["r#type", "r#match", "_hidden_flag", "__raw_mode", "alpha", "beta", "gamma", "lorem", "ipsum", "dolor", "my_field", "another_one", "x1", "long_name_here", "volume", "level", "mode", "kind", "first_item", "speed"];
pub const VARIANT_POOL: [&str; 12] = ["r#Match", "r#Type", "Alpha", "Beta", "Gamma", "LoremIpsum", "Dolor", "Quiet", "Loud", "VeryLoud", "Custom", "Other"];

#[derive(Clone, Debug)]
pub struct Profile {
    pub name: &'static str,
    pub traits: Vec<Trait>,
    pub p_enum: u32,          // out of 10, for FromMeta receivers at top level
    pub p_nested: u32,        // out of 10: nested receiver field types
    pub magic: bool,          // generate magic fields
    pub supports: bool,
    pub forward_attrs: bool,
    pub flatten: bool,
    pub options: bool,        // field/container options (rename/default/skip/...)
    pub body_recv: bool,      // data: ast::Data<V,F> with generated element receivers
    pub max_depth: usize,
    /// C20: names that collide with darling's option words, generated locals, prelude items; raw idents
    pub hostile_names: bool,
    /// C20: generic receivers
    pub generic_recv: bool,
    /// C20 only: newtype receivers whose skipped only field is of a type without a FromMeta impl
    pub skip_newtype_foreign: bool,
    /// chance out of 8 that a struct receiver gets a flatten member
    pub flatten_weight: u32,
}

pub const HOSTILE_FIELDS: [&str; 27] = ["errors", "items", "item", "name", "inner", "other", "val", "len", "skip", "rename", "map", "with", "flatten", "multiple", "and_then", "word", "r#type", "r#fn", "r#match", "r#struct", "result", "value", "field", "meta", "_lead", "_marker", "__dunder"];
pub const HOSTILE_VARIANTS: [&str; 10] = ["None", "Some", "Ok", "Err", "Default", "String", "Vec", "Result", "Option", "Box"];

pub struct Gen<'a> {
    pub rng: &'a mut Rng,
    pub recvs: Vec<Recv>,
    pub profile: Profile,
}

impl<'a> Gen<'a> {
    pub fn new(rng: &'a mut Rng, profile: Profile) -> Self {
        Gen {
            rng,
            recvs: vec![],
            profile,
        }
    }

    fn scalar(&mut self) -> Sc {
        *self.rng.pick(&[Sc::Bool, Sc::U8, Sc::I64, Sc::Str, Sc::Str, Sc::Char, Sc::I64])
    }

    fn field_ty(&mut self, depth: usize, allow_recv: bool) -> Ty {
        let r = self.rng.below(10) as u32;
        if allow_recv && depth < self.profile.max_depth && r < self.profile.p_nested {
            if self.rng.chance(1, 4) {
                return Ty::Recv(self.small_recv(depth + 1));
            }
            let is_enum = self.rng.chance(2, 5);
            let id = self.meta_recv(depth + 1, is_enum);
            return if self.rng.chance(1, 6) { Ty::BoxRecv(id) } else { Ty::Recv(id) };
        }
        match self.rng.below(8) {
            0 => Ty::Opt(Box::new(Ty::Sc(self.scalar()))),
            1 => Ty::Map(Box::new(Ty::Sc(*self.rng.pick(&[Sc::Str, Sc::U8, Sc::Bool])))),
            2 if self.rng.chance(1, 3) => Ty::PathList,
            3 if self.rng.chance(1, 3) => Ty::Bytes,
            _ => Ty::Sc(self.scalar()),
        }
    }

    fn fields(&mut self, depth: usize, tr: Trait, n: usize, _in_variant: bool) -> Vec<Field> {
        let mut names: Vec<&str> = if self.profile.hostile_names { HOSTILE_FIELDS.to_vec() } else { FIELD_POOL.to_vec() };
        if self.profile.hostile_names && tr == Trait::Meta {
            // names that are magic only for the element-level traits are ordinary fields here
            names.extend(["default", "ident", "attrs", "data", "vis", "ty", "generics", "bounds", "fields", "discriminant"]);
        }
        if self.profile.hostile_names && tr == Trait::Attributes {
            // FromAttributes passes no element parts on: every name is an ordinary field name there
            names.extend(["ident", "vis", "generics", "data", "ty"]);
        }
        self.rng.shuffle(&mut names);
        let mut out: Vec<Field> = vec![];
        let opts = self.profile.options;
        for name in names.into_iter().take(n) {
            let mut f = Field {
                rust: name.to_string(),
                ty: Ty::Sc(Sc::U8),
                multiple: false,
                rename: None,
                default: Def::None,
                skip: false,
                flatten: false,
                with: With::None,
                post: Post::None,
                split_attrs: self.rng.chance(1, 4),
                foreign: false,
            };
            f.ty = self.field_ty(depth, true);
            if opts {
                if self.rng.chance(1, 5) {
                    f.rename = Some(match self.rng.below(10) {
                        0 => (*self.rng.pick(&["r#loop", "r#while"])).to_string(),
                        // a name of several segments; a keyword (or a raw spelling) may stand in any of them
                        1 => format!("{}::{}{}", *self.rng.pick(&["opt", "ns", "r#mod", "serde"]), *self.rng.pick(&["type", "level", "r#fn", "rename", "x"]), self.rng.below(3).checked_sub(1).map(|n| format!("::s{n}")).unwrap_or_default()),
                        _ => format!("{}_{}", *self.rng.pick(&["ren", "nm", "q"]), self.rng.below(9)),
                    });
                }
                let scalar = matches!(f.ty, Ty::Sc(_));
                let transformable = matches!(f.ty, Ty::Sc(Sc::I64) | Ty::Sc(Sc::U8) | Ty::Sc(Sc::Str));
                if scalar && self.rng.chance(1, 6) {
                    f.multiple = true;
                }
                match self.rng.below(8) {
                    0 => f.default = Def::Trait,
                    1 if !matches!(f.ty, Ty::Recv(_) | Ty::BoxRecv(_) | Ty::PathList) => f.default = Def::Func,
                    _ => {}
                }
                if self.rng.chance(1, 8) {
                    f.skip = true;
                    // skipped fields are never parsed; `multiple` may still stand next to `skip`
                    if self.rng.coin() {
                        f.multiple = false;
                    }
                }
                // a custom converter on an optional field (absent, the field is still `None`)
                if let Ty::Opt(inner) = &f.ty {
                    if matches!(**inner, Ty::Sc(Sc::I64) | Ty::Sc(Sc::U8) | Ty::Sc(Sc::Str)) && !f.skip {
                        match self.rng.below(6) {
                            0 => f.with = With::Path,
                            1 => f.with = With::Closure,
                            _ => {}
                        }
                    }
                }
                if transformable && !f.skip {
                    match self.rng.below(10) {
                        0 => f.with = With::Path,
                        1 => f.with = With::Closure,
                        _ => {}
                    }
                    match self.rng.below(10) {
                        0 => f.post = Post::Map,
                        1 => f.post = Post::AndThen,
                        _ => {}
                    }
                    // a type of the user's without a FromMeta impl: read by its own converter, absent it
                    // takes its own default
                    if f.with != With::None && f.post == Post::None && !f.multiple && matches!(f.default, Def::None | Def::Trait) && self.rng.coin() {
                        f.default = Def::Trait;
                        f.foreign = true;
                    }
                }
            }
            out.push(f);
        }
        // a default function that is spelled exactly like the field it serves: the generated locals
        // must not get in the way of the user's path
        if self.profile.hostile_names && self.rng.chance(1, 3) {
            out.push(Field {
                rust: format!("own_{}", self.rng.next_u64() % 100_000_000),
                ty: Ty::Sc(Sc::I64),
                multiple: self.rng.chance(1, 4),
                rename: None,
                default: Def::Func,
                skip: false,
                flatten: false,
                with: With::None,
                post: Post::None,
                split_attrs: false,
                foreign: false,
            });
        }
        // explicit renames must not collide with each other
        for i in 0..out.len() {
            if let Some(n) = out[i].rename.clone() {
                if out[..i].iter().any(|g| g.rename.as_deref() == Some(&n)) {
                    out[i].rename = Some(format!("{n}_{i}"));
                }
            }
        }
        // at most one flatten member: a nested struct receiver, a boxed one, or a string map
        let _ = tr;
        if self.profile.flatten && depth < self.profile.max_depth && self.rng.chance(self.profile.flatten_weight, 8) {
            let ty = match self.rng.below(5) {
                0 => Ty::Map(Box::new(Ty::Sc(Sc::Str))),
                1 => {
                    let id = self.meta_recv(depth + 1, false);
                    Ty::BoxRecv(id)
                }
                2 if self.rng.coin() => {
                    // a newtype around a struct receiver: it hands everything on, the item list too
                    let outer = self.recvs.len();
                    self.recvs.push(Recv {
                        id: outer,
                        tr: Trait::Meta,
                        rename_all: None,
                        cdefault: Def::None,
                        from_ident: false,
                        post: Post::None,
                        allow_unknown: false,
                        from_word: false,
                        from_none: false,
                        attr_names: vec![],
                        forward: Fwd::None,
                        attrs_field: None,
                        supports: None,
                        magic: vec![],
                        shape: Shape::Unit,
                        generics: String::new(),
                        inner_with: With::None,
                        inner_post: Post::None,
            inner_skip: false,
            inner_foreign: false,
            inner_default: Def::None,
            inner_multiple: false,
                    });
                    let inner = self.meta_recv(depth + 1, false);
                    self.recvs[outer].shape = Shape::Newtype(Ty::Recv(inner));
                    // ... and its only field may carry a transform of its own, which acts on whatever the
                    // field was converted from, a handed-over item list included
                    if self.profile.options && matches!(self.recvs[inner].shape, Shape::Struct(_)) && self.recvs[inner].generics.is_empty() {
                        match self.rng.below(4) {
                            0 => self.recvs[outer].inner_post = Post::Map,
                            1 => self.recvs[outer].inner_post = Post::AndThen,
                            _ => {}
                        }
                    }
                    Ty::Recv(outer)
                }
                _ => {
                    let id = self.meta_recv(depth + 1, false);
                    Ty::Recv(id)
                }
            };
            let post = if self.profile.options && self.rng.chance(1, 3) && !matches!(ty, Ty::Map(_)) {
                if self.rng.chance(1, 2) {
                    Post::Map
                } else {
                    Post::AndThen
                }
            } else {
                Post::None
            };
            out.push(Field {
                rust: "rest".to_string(),
                ty,
                multiple: false,
                rename: None,
                default: Def::None,
                skip: false,
                flatten: true,
                with: With::None,
                post,
                split_attrs: false,
                foreign: false,
            });
        }
        out
    }

    /// a unit or newtype struct receiver (pass-through shapes)
    pub fn small_recv(&mut self, depth: usize) -> usize {
        let id = self.recvs.len();
        let shape = if self.rng.chance(1, 3) {
            Shape::Unit
        } else {
            // reserve the slot first so that a nested receiver gets a later id
            Shape::Unit
        };
        self.recvs.push(Recv {
            id,
            tr: Trait::Meta,
            rename_all: None,
            cdefault: Def::None,
            from_ident: false,
            post: Post::None,
            allow_unknown: false,
            from_word: false,
            from_none: false,
            attr_names: vec![],
            forward: Fwd::None,
            attrs_field: None,
            supports: None,
            magic: vec![],
            shape,
            generics: String::new(),
            inner_with: With::None,
            inner_post: Post::None,
            inner_skip: false,
            inner_foreign: false,
            inner_default: Def::None,
            inner_multiple: false,
        });
        if self.rng.chance(2, 3) {
            let inner = match self.rng.below(4) {
                0 if depth < self.profile.max_depth => Ty::Recv(self.meta_recv(depth + 1, false)),
                1 => Ty::Opt(Box::new(Ty::Sc(self.scalar()))),
                _ => Ty::Sc(self.scalar()),
            };
            self.recvs[id].shape = Shape::Newtype(inner);
        }
        // a newtype is a receiver like any other: container-level map / and_then, and with / map /
        // and_then on its only field
        if self.profile.options {
            if let Shape::Newtype(Ty::Sc(sc)) = self.recvs[id].shape.clone() {
                if matches!(sc, Sc::I64 | Sc::Str) {
                    match self.rng.below(6) {
                        0 => self.recvs[id].post = Post::Map,
                        1 => self.recvs[id].post = Post::AndThen,
                        _ => {}
                    }
                }
                if matches!(sc, Sc::I64 | Sc::U8 | Sc::Str) {
                    match self.rng.below(8) {
                        0 => self.recvs[id].inner_with = With::Path,
                        1 => self.recvs[id].inner_with = With::Closure,
                        _ => {}
                    }
                    match self.rng.below(8) {
                        0 => self.recvs[id].inner_post = Post::Map,
                        1 => self.recvs[id].inner_post = Post::AndThen,
                        _ => {}
                    }
                }
            }
            if matches!(self.recvs[id].shape, Shape::Newtype(_)) && self.rng.chance(1, 8) {
                self.recvs[id].inner_skip = true;
            }
            // a default of its own on the only field: what the newtype is when its item is absent
            if matches!(self.recvs[id].shape, Shape::Newtype(Ty::Sc(_))) && !self.recvs[id].inner_skip && self.rng.chance(1, 2) {
                self.recvs[id].inner_default = if self.rng.coin() { Def::Trait } else { Def::Func };
            }
            // `skip` on the only field of a newtype over a type that meets what the documentation asks of
            // a skipped field (Default) and nothing more (compile-only profile: see known finding K2)
            if self.profile.skip_newtype_foreign && matches!(self.recvs[id].shape, Shape::Newtype(Ty::Sc(_))) && self.rng.chance(1, 4) {
                let r = &mut self.recvs[id];
                r.inner_skip = true;
                r.inner_foreign = true;
                r.inner_with = With::None;
                r.inner_post = Post::None;
                r.inner_default = Def::None;
                r.post = Post::None;
            }
        }
        // `multiple` on the only field of a newtype over `Vec<T>`: accepted, and `T: FromMeta` is all the
        // documentation asks of a `multiple` field (compile-only profile: see known finding K3)
        if self.profile.options && self.profile.skip_newtype_foreign && matches!(self.recvs[id].shape, Shape::Newtype(Ty::Sc(Sc::Str | Sc::I64))) && !self.recvs[id].inner_skip && self.rng.chance(1, 5) {
            let r = &mut self.recvs[id];
            r.inner_multiple = true;
            r.inner_with = With::None;
            r.inner_post = Post::None;
            r.inner_default = Def::None;
            r.post = Post::None;
        }
        // a declared value-for-absent on a unit / newtype receiver
        if self.profile.options && self.rng.chance(1, 3) {
            self.recvs[id].from_none = true;
        }
        id
    }

    /// a FromMeta receiver usable as a field type
    pub fn meta_recv(&mut self, depth: usize, is_enum: bool) -> usize {
        let id = self.recvs.len();
        // reserve the slot so that nested receivers get later ids
        self.recvs.push(Recv {
            id,
            tr: Trait::Meta,
            rename_all: None,
            cdefault: Def::None,
            from_ident: false,
            post: Post::None,
            allow_unknown: false,
            from_word: false,
            from_none: false,
            attr_names: vec![],
            forward: Fwd::None,
            attrs_field: None,
            supports: None,
            magic: vec![],
            shape: Shape::Struct(vec![]),
            generics: String::new(),
            inner_with: With::None,
            inner_post: Post::None,
            inner_skip: false,
            inner_foreign: false,
            inner_default: Def::None,
            inner_multiple: false,
        });
        let opts = self.profile.options;
        let mut r = self.recvs[id].clone();
        if opts && self.rng.chance(1, 3) {
            r.rename_all = Some(*self.rng.pick(&RULES));
        }
        if is_enum {
            let n = self.rng.range(1, 5);
            let mut names: Vec<&str> = if self.profile.hostile_names { HOSTILE_VARIANTS.to_vec() } else { VARIANT_POOL.to_vec() };
            self.rng.shuffle(&mut names);
            let mut vars = vec![];
            let mut have_word = false;
            for name in names.into_iter().take(n) {
                let body = match self.rng.below(6) {
                    0 | 1 | 2 => VBody::Unit,
                    3 => VBody::Newtype(match self.rng.below(4) {
                        0 => Ty::Opt(Box::new(Ty::Sc(self.scalar()))),
                        1 if depth < self.profile.max_depth => Ty::Recv(self.meta_recv(depth + 1, false)),
                        2 if depth < self.profile.max_depth && self.rng.coin() => Ty::Recv(self.small_recv(depth + 1)),
                        _ => Ty::Sc(self.scalar()),
                    }),
                    _ => {
                        let k = self.rng.range(0, 3);
                        VBody::Struct(self.fields(depth, Trait::Meta, k, true))
                    }
                };
                let mut v = Variant {
                    rust: name.to_string(),
                    rename: None,
                    skip: false,
                    word: false,
                    word_false: false,
                    body,
                    nt_with: With::None,
                    nt_post: Post::None,
                    nt_default: Def::None,
                    nt_foreign: false,
                };
                if opts {
                    if let VBody::Newtype(Ty::Sc(sc)) = &v.body {
                        if matches!(sc, Sc::I64 | Sc::U8 | Sc::Str) {
                            match self.rng.below(8) {
                                0 => v.nt_with = With::Path,
                                1 => v.nt_with = With::Closure,
                                _ => {}
                            }
                            match self.rng.below(8) {
                                0 => v.nt_post = Post::Map,
                                1 => v.nt_post = Post::AndThen,
                                _ => {}
                            }
                            // a default of its own: what the string form gives the variant
                            if self.rng.chance(1, 5) {
                                v.nt_default = Def::Trait;
                            }
                            // ... and with a converter of its own as well the type needs no FromMeta impl
                            if v.nt_post == Post::None && self.rng.chance(1, 5) {
                                v.nt_default = Def::Trait;
                                if v.nt_with == With::None {
                                    v.nt_with = if self.rng.coin() { With::Path } else { With::Closure };
                                }
                                v.nt_foreign = true;
                            }
                        }
                    }
                }
                if opts {
                    if self.rng.chance(1, 6) {
                        v.rename = Some(match self.rng.below(10) {
                            0 => "r#loop".to_string(),
                            1 => format!("{}::{}", *self.rng.pick(&["opt", "ns", "r#mod"]), *self.rng.pick(&["type", "quiet", "r#fn", "v"])),
                            _ => format!("vr_{}", self.rng.below(9)),
                        });
                    }
                    if self.rng.chance(1, 7) {
                        v.skip = true;
                    }
                    // (a skipped variant may still say `word`: skip wins, the variant is never produced)
                    // it does not use up the one word variant an enum may have, nor does it clash with `from_word`
                    if matches!(v.body, VBody::Unit) && v.skip && self.rng.chance(1, 3) {
                        v.word = true;
                    } else if matches!(v.body, VBody::Unit) && !have_word && !v.skip && self.rng.chance(1, 6) {
                        v.word = true;
                        have_word = true;
                    }
                    if matches!(v.body, VBody::Unit) && !v.word && self.rng.chance(1, 5) {
                        v.word_false = true;
                    }
                }
                vars.push(v);
            }
            if opts {
                if !have_word && self.rng.chance(1, 6) {
                    r.from_word = true;
                }
                if self.rng.chance(1, 6) {
                    r.from_none = true;
                }
                if self.rng.chance(1, 5) {
                    r.allow_unknown = true;
                }
                // a container `default` on an enum: accepted, and there is no same-named field of an enum
                // value for a variant's field to fall back to
                match self.rng.below(12) {
                    0 => r.cdefault = Def::Trait,
                    1 => r.cdefault = Def::Func,
                    _ => {}
                }
            }
            r.shape = Shape::Enum(vars);
        } else {
            let n = self.rng.range(1, 4);
            let fs = self.fields(depth, Trait::Meta, n, false);
            r.shape = Shape::Struct(fs);
            self.container_opts(&mut r);
            if opts {
                if self.rng.chance(1, 8) {
                    r.from_word = true;
                }
                if self.rng.chance(1, 8) {
                    r.from_none = true;
                }
            }
            if self.profile.generic_recv && depth == 0 && self.rng.chance(1, 3) {
                r.generics = (*self.rng.pick(&GENERIC_POOL)).to_string();
                make_generic_friendly(&mut r);
            }
        }
        self.recvs[id] = r;
        id
    }

    fn container_opts(&mut self, r: &mut Recv) {
        if !self.profile.options {
            return;
        }
        match self.rng.below(8) {
            0 => r.cdefault = Def::Trait,
            1 => r.cdefault = Def::Func,
            _ => {}
        }
        if self.rng.chance(1, 5) {
            r.allow_unknown = true;
        }
        // container map / and_then need an anchor field (first plain i64 / String field that is parsed)
        let anchor = anchor_field(r).is_some();
        if anchor {
            match self.rng.below(8) {
                0 => r.post = Post::Map,
                1 => r.post = Post::AndThen,
                _ => {}
            }
        }
    }

    /// a top-level receiver for one of the element-level traits (or FromMeta)
    pub fn top_recv(&mut self, tr: Trait) -> usize {
        if tr == Trait::Meta {
            let is_enum = (self.rng.below(10) as u32) < self.profile.p_enum;
            return self.meta_recv(0, is_enum);
        }
        let id = self.recvs.len();
        let mut r = Recv {
            id,
            tr,
            rename_all: None,
            cdefault: Def::None,
            from_ident: false,
            post: Post::None,
            allow_unknown: false,
            from_word: false,
            from_none: false,
            attr_names: vec![],
            forward: Fwd::None,
            attrs_field: None,
            supports: None,
            magic: vec![],
            shape: Shape::Struct(vec![]),
            generics: String::new(),
            inner_with: With::None,
            inner_post: Post::None,
            inner_skip: false,
            inner_foreign: false,
            inner_default: Def::None,
            inner_multiple: false,
        };
        self.recvs.push(r.clone());
        if self.profile.options && self.rng.chance(1, 3) {
            r.rename_all = Some(*self.rng.pick(&RULES));
        }
        // (now and then a receiver with no field of its own: it still reads the attributes it lists, and
        // everything in them is a mistake)
        let n = if self.rng.chance(1, 8) { 0 } else { self.rng.range(1, 4) };
        let fs = self.fields(0, tr, n, false);
        r.shape = Shape::Struct(fs);
        let n_names = if tr == Trait::Attributes { self.rng.weighted(&[0, 6, 3, 1]) } else { self.rng.weighted(&[2, 6, 3, 1]) };
        // (`doc` is an attribute name like any other: a receiver may read `#[doc(..)]`)
        let pool = ["attr_a", "attr_b", "cfgx", "my_crate", "ns::attr_c", "::glob_attr", "doc"];
        let mut names: Vec<&str> = pool.to_vec();
        self.rng.shuffle(&mut names);
        r.attr_names = names.into_iter().take(n_names).map(|s| s.to_string()).collect();
        self.container_opts(&mut r);
        if self.profile.options && r.cdefault == Def::None && tr != Trait::Attributes && self.rng.chance(1, 8) {
            r.from_ident = true;
        }
        if self.profile.forward_attrs {
            match self.rng.below(6) {
                0 | 1 => {
                    r.forward = Fwd::All;
                    r.attrs_field = Some(self.rng.chance(1, 4));
                }
                2 | 3 => {
                    let list = match self.rng.below(10) {
                        0 | 1 => vec![],
                        5 => vec!["doc".to_string()],
                        // (names of several segments, longer than any name the receiver reads)
                        8 => vec!["attr_a::sub".to_string(), "other".to_string()],
                        9 => vec!["serde::rename".to_string()],
                        2 => vec!["doc".to_string(), "allow".to_string()],
                        3 if !r.attr_names.is_empty() => vec!["other".to_string(), r.attr_names[0].clone()],
                        _ => vec!["other".to_string(), "doc".to_string()],
                    };
                    r.forward = Fwd::Only(list);
                    r.attrs_field = Some(self.rng.chance(1, 4));
                }
                4 => {
                    // forward_attrs declared, no field to receive them
                    r.forward = Fwd::All;
                }
                _ => {}
            }
        }
        if self.profile.forward_attrs && tr != Trait::Attributes && self.rng.chance(1, 10) {
            // corner shape: nothing to read, nothing to forward, but a field that must still be filled
            r.attr_names.clear();
            r.forward = Fwd::Only(vec![]);
            r.attrs_field = Some(self.rng.chance(1, 3));
        }
        if self.profile.supports && matches!(tr, Trait::DeriveInput | Trait::Variant) && self.rng.chance(2, 3) {
            r.supports = Some(self.shape_words(tr));
        }
        if self.profile.magic {
            self.magic_fields(&mut r);
        }
        if !r.magic.is_empty() || r.attrs_field.is_some() {
            // such a receiver cannot implement Default / From<Ident> (its magic field types do not) ...
            // (every other such receiver that has the `default` magic field gets one, whatever was drawn:
            // decided by the receiver's number so that nothing else of the corpus moves)
            if tr == Trait::TypeParam && r.attrs_field.is_none() && id % 2 == 0 && r.magic.iter().any(|m| m.kind == MagicKind::Default) {
                r.cdefault = Def::Trait;
            }
            let keep = tr == Trait::TypeParam && r.attrs_field.is_none() && r.cdefault == Def::Trait;
            // ... except a type-parameter receiver with a hand-written `Default` (an identifier, no bounds, a
            // default type): its fallback instance is for the fields the attributes did not supply, never
            // for what the parameter itself says
            if !keep {
                r.cdefault = Def::None;
            }
            r.from_ident = false;
        }
        if self.profile.generic_recv && self.rng.chance(1, 3) {
            r.generics = (*self.rng.pick(&GENERIC_POOL)).to_string();
            make_generic_friendly(&mut r);
            if !r.magic.is_empty() {
                // (the hand-written fallback instance is not written generically)
                r.cdefault = Def::None;
            }
        }
        self.recvs[id] = r;
        // a newtype receiver of the same trait around it: `struct Outer(Inner);` hands the whole
        // element to Inner's implementation (FromDeriveInput and FromAttributes only)
        if matches!(tr, Trait::DeriveInput | Trait::Attributes) && self.profile.options && self.rng.chance(1, 5) {
            let outer = self.recvs.len();
            // around a generic receiver the wrapper is generic itself (`struct Outer<T>(T);`)
            let generic = !self.recvs[id].generics.is_empty() || (self.profile.generic_recv && self.rng.coin());
            let supports = if self.profile.supports && tr == Trait::DeriveInput && self.rng.chance(1, 2) { Some(self.shape_words(tr)) } else { None };
            self.recvs.push(Recv {
                id: outer,
                tr,
                rename_all: None,
                cdefault: Def::None,
                from_ident: false,
                post: Post::None,
                allow_unknown: false,
                from_word: false,
                from_none: false,
                attr_names: vec![],
                forward: Fwd::None,
                attrs_field: None,
                supports,
                magic: vec![],
                shape: Shape::Newtype(Ty::Recv(id)),
                generics: if generic { "<T>".to_string() } else { String::new() },
                inner_with: With::None,
                inner_post: Post::None,
                inner_skip: self.rng.chance(1, 4),
            inner_foreign: false,
            inner_default: Def::None,
            inner_multiple: false,
            });
            return outer;
        }
        id
    }

    fn shape_words(&mut self, tr: Trait) -> Vec<String> {
        let all: Vec<&str> = if tr == Trait::DeriveInput {
            vec!["any", "struct_any", "struct_named", "struct_tuple", "struct_newtype", "struct_unit", "enum_any", "enum_named", "enum_tuple", "enum_newtype", "enum_unit"]
        } else {
            vec!["any", "named", "tuple", "newtype", "unit"]
        };
        // every word of both kinds, without the top-level `any`: everything but a union is admitted
        if tr == Trait::DeriveInput && self.rng.chance(1, 6) {
            let full: &[&str] = match self.rng.below(3) {
                0 => &["struct_any", "enum_any"],
                1 => &["struct_named", "struct_tuple", "struct_unit", "enum_named", "enum_tuple", "enum_unit"],
                _ => &["struct_any", "enum_named", "enum_tuple", "enum_newtype", "enum_unit"],
            };
            return full.iter().map(|s| s.to_string()).collect();
        }
        // the empty list: nothing is supported, every shape is refused (and has to be refused in words)
        if self.rng.chance(1, 10) {
            return vec![];
        }
        let n = self.rng.range(1, 3);
        let mut v = all.clone();
        self.rng.shuffle(&mut v);
        v.into_iter().take(n).map(|s| s.to_string()).collect()
    }

    fn magic_fields(&mut self, r: &mut Recv) {
        let kinds: &[MagicKind] = match r.tr {
            Trait::DeriveInput => &[MagicKind::Ident, MagicKind::Vis, MagicKind::Generics, MagicKind::Data],
            Trait::Field => &[MagicKind::Ident, MagicKind::Vis, MagicKind::Ty],
            Trait::Variant => &[MagicKind::Ident, MagicKind::Discriminant, MagicKind::Fields],
            Trait::TypeParam => &[MagicKind::Ident, MagicKind::Bounds, MagicKind::Default],
            _ => &[],
        };
        for k in kinds {
            if self.rng.chance(3, 5) {
                let wrap = if *k == MagicKind::Generics { *self.rng.pick(&[Wrap::Plain, Wrap::Plain, Wrap::Spanned, Wrap::WithOriginal, Wrap::Result]) } else { Wrap::Plain };
                let mut m = Magic {
                    kind: *k,
                    wrap,
                    variant_recv: None,
                    field_recv: None,
                    with: false,
                    own_generics: false,
                tparam_recv: None,
                };
                if *k == MagicKind::Data && self.rng.chance(1, 4) {
                    m.with = true;
                }
                if *k == MagicKind::Generics && self.rng.chance(2, 5) {
                    m.own_generics = true;
                }
                if *k == MagicKind::Generics && self.profile.body_recv && self.rng.chance(1, 3) {
                    m.own_generics = true;
                    m.wrap = Wrap::Plain;
                    m.tparam_recv = Some(self.element_recv(Trait::TypeParam));
                }
                if matches!(k, MagicKind::Data | MagicKind::Fields) && self.profile.body_recv && self.rng.chance(2, 3) {
                    if *k == MagicKind::Data {
                        // element receivers: a FromVariant receiver (with its own `fields`) and a FromField receiver
                        let f = self.element_recv(Trait::Field);
                        let v = self.element_recv(Trait::Variant);
                        m.field_recv = Some(f);
                        m.variant_recv = Some(v);
                    } else {
                        let f = self.element_recv(Trait::Field);
                        m.field_recv = Some(f);
                    }
                }
                r.magic.push(m);
            }
        }
    }

    /// a small element-level receiver used inside `data` / `fields`
    fn element_recv(&mut self, tr: Trait) -> usize {
        let id = self.recvs.len();
        let mut r = Recv {
            id,
            tr,
            rename_all: None,
            cdefault: Def::None,
            from_ident: false,
            post: Post::None,
            allow_unknown: false,
            from_word: false,
            from_none: false,
            attr_names: vec!["inner".to_string()],
            forward: Fwd::None,
            attrs_field: None,
            supports: None,
            magic: vec![Magic {
                kind: MagicKind::Ident,
                wrap: Wrap::Plain,
                variant_recv: None,
                field_recv: None,
                with: false,
                own_generics: false,
                tparam_recv: None,
            }],
            shape: Shape::Struct(vec![]),
            generics: String::new(),
            inner_with: With::None,
            inner_post: Post::None,
            inner_skip: false,
            inner_foreign: false,
            inner_default: Def::None,
            inner_multiple: false,
        };
        self.recvs.push(r.clone());
        // one optional and one required scalar option keep body-layer mistakes expressible
        let mut fs = vec![];
        fs.push(Field {
            rust: "weight".into(),
            ty: Ty::Opt(Box::new(Ty::Sc(Sc::U8))),
            multiple: false,
            rename: None,
            default: Def::None,
            skip: false,
            flatten: false,
            with: With::None,
            post: Post::None,
            split_attrs: false,
                foreign: false,
        });
        if self.rng.coin() {
            fs.push(Field {
                rust: "label".into(),
                ty: Ty::Sc(Sc::Str),
                multiple: false,
                rename: None,
                default: if self.rng.coin() { Def::Trait } else { Def::None },
                skip: false,
                flatten: false,
                with: With::None,
                post: Post::None,
                split_attrs: false,
                foreign: false,
            });
        }
        r.shape = Shape::Struct(fs);
        if tr == Trait::Variant {
            let f = self.element_recv(Trait::Field);
            r.magic.push(Magic {
                kind: MagicKind::Fields,
                wrap: Wrap::Plain,
                variant_recv: None,
                field_recv: Some(f),
                with: false,
                own_generics: false,
                tparam_recv: None,
            });
        }
        if tr == Trait::Field {
            r.magic.push(Magic {
                kind: MagicKind::Ty,
                wrap: Wrap::Plain,
                variant_recv: None,
                field_recv: None,
                with: false,
                own_generics: false,
                tparam_recv: None,
            });
        }
        self.recvs[id] = r;
        id
    }
}

/// The field container-level `map` / `and_then` act on: the first parsed, non-multiple i64 or String field.
pub fn anchor_field(r: &Recv) -> Option<usize> {
    r.fields().iter().position(|f| !f.multiple && !f.flatten && !f.foreign && matches!(f.ty, Ty::Sc(Sc::I64) | Ty::Sc(Sc::Str)))
}

/// helper functions are not emitted generically: a generic receiver keeps only what needs none
fn make_generic_friendly(r: &mut Recv) {
    if r.cdefault == Def::Func {
        r.cdefault = Def::Trait;
    }
    r.post = Post::None;
    r.from_word = false;
    r.from_none = false;
    r.from_ident = false;
}

pub const GENERIC_POOL: [&str; 7] = ["<T>", "<'a, T, const N: usize>", "<T: Clone, U>", "<W>", "<T, V>", "<T, const e: usize>", "<T, const expr: usize>"];

/// (generic arguments, extra fields `(attribute, name, type)`) of a generic receiver
pub fn generic_parts(r: &Recv) -> (String, Vec<(&'static str, &'static str, &'static str)>) {
    match r.generics.as_str() {
        "<T>" => ("<T>".into(), vec![("", "gen_t", "Option<T>")]),
        "<'a, T, const N: usize>" => ("<'a, T, N>".into(), vec![("", "gen_t", "Option<T>"), ("#[darling(skip)] ", "gen_marker", "::core::marker::PhantomData<&'a [u8; N]>")]),
        "<T: Clone, U>" => ("<T, U>".into(), vec![("", "gen_t", "Option<T>"), ("#[darling(multiple)] ", "gen_u", "Vec<U>")]),
        // a parameter that only a field with a custom converter mentions still needs the bound:
        // the generated presence check asks the field type for its value-for-absent
        "<W>" => ("<W>".into(), vec![("#[darling(with = |m: &::darling::export::syn::Meta| <Option<W> as ::darling::FromMeta>::from_meta(m))] ", "gen_w", "Option<W>")]),
        "<T, V>" => ("<T, V>".into(), vec![("", "gen_t", "Option<T>"), ("#[darling(with = gen_none_with)] ", "gen_v", "Option<V>")]),
        // const parameters named like the bindings generated code is tempted to use: a pattern spelled
        // like a constant in scope is a constant pattern
        "<T, const e: usize>" => ("<T, e>".into(), vec![("", "gen_t", "Option<T>"), ("#[darling(skip)] ", "gen_marker", "::core::marker::PhantomData<[u8; e]>")]),
        "<T, const expr: usize>" => ("<T, expr>".into(), vec![("", "gen_t", "Option<T>"), ("#[darling(skip)] ", "gen_marker", "::core::marker::PhantomData<[u8; expr]>")]),
        _ => (String::new(), vec![]),
    }
}
