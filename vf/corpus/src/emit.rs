//! Emits a generated receiver crate (one shard): receiver declarations using darling's
//! derives, their helper functions with tagged values, `Dump` impls and the dispatch table.

use crate::spec::*;
use crate::values::*;

/// pass-through converters of the prelude (see `PRELUDE`)
const PLAIN_WITH: [&str; 12] = ["len", "item", "items", "errors", "val", "value", "name", "inner", "result", "meta", "field", "other"];

/// every fifth field's helper functions take a (needless) generic argument, written the way a type
/// would carry it in the quoted spelling of the path
fn generic_helper(k: usize) -> bool {
    k % 5 == 2
}

/// `darling`, now and then spelled as a raw identifier: the same attribute
fn attr_word(k: usize) -> &'static str {
    if k % 7 == 3 {
        "r#darling"
    } else {
        "darling"
    }
}

fn field_attr(recvs: &[Recv], scope: &str, f: &Field, k: usize) -> String {
    let hn = f.rust.trim_start_matches("r#").trim_start_matches('_');
    let mut opts: Vec<String> = vec![];
    if let Some(n) = &f.rename {
        opts.push(format!("rename = \"{n}\""));
    }
    match f.default {
        Def::None => {}
        // (the same thing spelled as a function: `lit` is a name generated code is tempted to use itself)
        Def::Trait if k % 4 == 1 => opts.push("default = lit".into()),
        Def::Trait => opts.push("default".into()),
        Def::Func if hn.starts_with("own_") => opts.push(if k % 2 == 0 { format!("default = \"{hn}\"") } else { format!("default = {hn}") }),
        // (a quoted path may carry generic arguments the way a type does: `"f<0>"`)
        Def::Func if generic_helper(k) => opts.push(format!("default = \"fdef_{}_{}<0>\"", scope, hn)),
        Def::Func => opts.push(if k % 2 == 0 { format!("default = \"fdef_{}_{}\"", scope, hn) } else { format!("default = fdef_{}_{}", scope, hn) }),
    }
    if f.skip {
        opts.push(if k % 3 == 0 { "skip = true".into() } else { "skip".into() });
    } else if (k + hn.len()) % 5 == 2 && !f.flatten {
        // (the option carries a value: written with `false` it says what leaving it out says)
        opts.push("skip = false".into());
    }
    if f.multiple {
        opts.push("multiple".into());
    }
    if f.flatten {
        opts.push("flatten".into());
    }
    match f.with {
        // (a converter that does what the field's type does by itself, named like something generated
        // code is tempted to call its own locals: every sixth plain field)
        // (not on the only field of a newtype: with a converter of its own such a receiver no longer
        // hands a *list* on to the field, which a flatten member needs)
        With::None if k % 6 == 4 && !f.flatten && !f.skip && !f.foreign && f.rust != "nt" && !f.rust.starts_with("nt_") => opts.push(format!("with = {}", PLAIN_WITH[(k / 6 + hn.len()) % PLAIN_WITH.len()])),
        With::None => {}
        With::Path => opts.push(format!("with = with_{}_{}", scope, hn)),
        With::Closure => {
            if let Ty::Sc(sc) = f.ty {
                let body = if f.foreign { format!("Foreign({})", with_body(sc)) } else { with_body(sc).to_string() };
                // (the parameter's type is left to inference two times out of three: the derive has to give the closure
                // a signature to be checked against)
                // (... and calls a method on it first, so that nothing in the closure itself says what `m` is)
                if k % 3 == 0 {
                    opts.push(format!("with = |m: &syn::Meta| <{} as ::darling::FromMeta>::from_meta(m).map(|v| {})", rust_ty(recvs, &f.ty), body));
                } else {
                    opts.push(format!("with = |m| {{ let _ = m.path(); <{} as ::darling::FromMeta>::from_meta(m).map(|v| {}) }}", rust_ty(recvs, &f.ty), body));
                }
            } else if let Ty::Opt(inner) = &f.ty {
                // a custom converter on an optional field: absent it is still `None`
                if let Ty::Sc(sc) = **inner {
                    opts.push(format!("with = |m{}| <{} as ::darling::FromMeta>::from_meta(m).map(|o| o.map(|v| {}))", if k % 3 == 0 { ": &syn::Meta" } else { "" }, rust_ty(recvs, &f.ty), with_body(sc)));
                }
            }
        }
    }
    match f.post {
        Post::None => {}
        Post::Map if generic_helper(k) => opts.push(format!("map = \"map_{}_{}<0>\"", scope, hn)),
        Post::Map => opts.push(if k % 2 == 0 { format!("map = \"map_{}_{}\"", scope, hn) } else { format!("map = map_{}_{}", scope, hn) }),
        Post::AndThen => opts.push(format!("and_then = andthen_{}_{}", scope, hn)),
    }
    if opts.is_empty() {
        return String::new();
    }
    if f.split_attrs && opts.len() > 1 {
        let (a, b) = opts.split_at(1);
        format!("#[darling({})] #[{}({})] ", a.join(", "), attr_word(k), b.join(", "))
    } else {
        format!("#[{}({})] ", attr_word(k), opts.join(", "))
    }
}

fn field_helpers(recvs: &[Recv], scope: &str, f: &Field, k: usize, out: &mut String) {
    let hn = f.rust.trim_start_matches("r#").trim_start_matches('_');
    let elem_ty = rust_ty(recvs, &f.ty);
    let full_ty = field_full_ty(recvs, f);
    let gp = if generic_helper(k) { "<const N: usize>" } else { "" };
    if f.default == Def::Func && hn.starts_with("own_") {
        out.push_str(&format!("fn {hn}() -> {full_ty} {{ {} }}\n", field_sentinel_expr(recvs, f, Tag::FieldDefault, k)));
    } else if f.default == Def::Func {
        out.push_str(&format!("fn fdef_{}_{}{gp}() -> {full_ty} {{ {} }}\n", scope, hn, field_sentinel_expr(recvs, f, Tag::FieldDefault, k)));
    }
    if let (Ty::Opt(inner), With::Path) = (&f.ty, f.with) {
        if let Ty::Sc(sc) = **inner {
            out.push_str(&format!(
                "fn with_{}_{}(m: &syn::Meta) -> ::darling::Result<{elem_ty}> {{ <{elem_ty} as ::darling::FromMeta>::from_meta(m).map(|o| o.map(|v| {})) }}\n",
                scope,
                hn,
                with_body(sc)
            ));
        }
    }
    if let Ty::Sc(sc) = f.ty {
        if f.with == With::Path {
            let body = if f.foreign { format!("Foreign({})", with_body(sc)) } else { with_body(sc).to_string() };
            out.push_str(&format!(
                "fn with_{}_{}(m: &syn::Meta) -> ::darling::Result<{}> {{ <{elem_ty} as ::darling::FromMeta>::from_meta(m).map(|v| {}) }}\n",
                scope,
                hn,
                if f.foreign { &full_ty } else { &elem_ty },
                body
            ));
        }
        match f.post {
            Post::Map => out.push_str(&format!("fn map_{}_{}{gp}(v: {elem_ty}) -> {elem_ty} {{ {} }}\n", scope, hn, map_body(sc))),
            Post::AndThen => out.push_str(&format!(
                "fn andthen_{}_{}(v: {elem_ty}) -> ::darling::Result<{elem_ty}> {{ if {} {{ Err(::darling::Error::custom(\"rejected by and_then\")) }} else {{ Ok({}) }} }}\n",
                scope,
                hn,
                and_then_reject_cond(sc),
                map_body(sc)
            )),
            Post::None => {}
        }
    } else if (f.flatten || matches!(f.ty, Ty::Recv(_) | Ty::BoxRecv(_))) && f.post == Post::Map {
        // a transform on the flatten member: wraps the nested receiver's anchor, visible in the dump
        out.push_str(&format!("fn map_{}_{}{gp}(v: {full_ty}) -> {full_ty} {{ flatten_mark(v) }}\n", scope, hn));
    } else if (f.flatten || matches!(f.ty, Ty::Recv(_) | Ty::BoxRecv(_))) && f.post == Post::AndThen {
        out.push_str(&format!(
            "fn andthen_{}_{}(v: {full_ty}) -> ::darling::Result<{full_ty}> {{ if flatten_rejects(&v) {{ Err(::darling::Error::custom(\"rejected by flatten and_then\")) }} else {{ Ok(flatten_mark(v)) }} }}\n",
            scope, hn
        ));
    }
}

fn dump_fields(fields: &[Field], access: &str) -> String {
    let mut s = String::from("{ let mut m = ::vf_support::serde_json_map(); ");
    for f in fields {
        let amp = if access.is_empty() { "" } else { "&" };
        s.push_str(&format!("m.insert(String::from(\"{0}\"), ::vf_support::Dump::dump({amp}{access}{0})); ", f.rust));
    }
    s.push_str("::vf_support::Value::Object(m) }");
    s
}

fn magic_field_decl(recvs: &[Recv], r: &Recv, m: &Magic) -> (String, String) {
    let (name, base): (&str, String) = match m.kind {
        MagicKind::Ident => ("ident", if r.tr == Trait::Field { "Option<syn::Ident>".into() } else { "syn::Ident".into() }),
        MagicKind::Vis => ("vis", "syn::Visibility".into()),
        MagicKind::Generics => (
            "generics",
            match m.tparam_recv {
                Some(tp) => format!("::darling::ast::Generics<::darling::ast::GenericParam<{}>>", recvs[tp].name()),
                None if m.own_generics => "::darling::ast::Generics<::darling::ast::GenericParam>".into(),
                None => "syn::Generics".into(),
            },
        ),
        MagicKind::Ty => ("ty", "syn::Type".into()),
        MagicKind::Bounds => ("bounds", "Vec<syn::TypeParamBound>".into()),
        MagicKind::Default => ("default", "Option<syn::Type>".into()),
        MagicKind::Discriminant => ("discriminant", "Option<syn::Expr>".into()),
        MagicKind::Data => (
            "data",
            format!(
                "::darling::ast::Data<{}, {}>",
                m.variant_recv.map(|i| recvs[i].name()).unwrap_or_else(|| "syn::Variant".into()),
                m.field_recv.map(|i| recvs[i].name()).unwrap_or_else(|| "syn::Field".into())
            ),
        ),
        MagicKind::Fields => ("fields", format!("::darling::ast::Fields<{}>", m.field_recv.map(|i| recvs[i].name()).unwrap_or_else(|| "syn::Field".into()))),
    };
    let ty = match (m.wrap, m.kind) {
        (Wrap::Spanned, MagicKind::Generics) => format!("::darling::util::SpannedValue<{base}>"),
        (Wrap::WithOriginal, MagicKind::Generics) => format!("::darling::util::WithOriginal<{base}, syn::Generics>"),
        (Wrap::Result, MagicKind::Generics) => format!("::darling::Result<{base}>"),
        _ => base,
    };
    (name.to_string(), ty)
}

pub fn emit_recv(recvs: &[Recv], r: &Recv, out: &mut String) {
    let name = r.name();
    let g = &r.generics;
    // container attribute
    let mut copts: Vec<String> = vec![];
    if let Some(rule) = r.rename_all {
        copts.push(format!("rename_all = \"{}\"", rule.text()));
    }
    match r.cdefault {
        Def::None => {}
        Def::Trait => copts.push("default".into()),
        Def::Func => copts.push(format!("default = \"cdef_{}\"", r.id)),
    }
    match r.post {
        Post::None => {}
        Post::Map => copts.push(format!("map = \"cmap_{}\"", r.id)),
        Post::AndThen => copts.push(format!("and_then = cand_{}", r.id)),
    }
    if r.allow_unknown {
        copts.push("allow_unknown_fields".into());
    }
    if r.from_word {
        copts.push(if r.id % 2 == 0 { format!("from_word = fword_{}", r.id) } else { format!("from_word = || fword_{}()", r.id) });
    }
    if r.from_none {
        copts.push(if r.id % 2 == 0 { format!("from_none = fnone_{}", r.id) } else { format!("from_none = || fnone_{}()", r.id) });
    }
    if r.tr.element_level() {
        if !r.attr_names.is_empty() {
            copts.push(format!("attributes({})", r.attr_names.join(", ")));
        }
        match &r.forward {
            Fwd::None => {}
            Fwd::All => copts.push("forward_attrs".into()),
            Fwd::Only(l) => copts.push(format!("forward_attrs({})", l.join(", "))),
        }
        if r.from_ident {
            copts.push("from_ident".into());
        }
        if let Some(words) = &r.supports {
            copts.push(format!("supports({})", words.join(", ")));
        }
    }
    out.push_str(&format!("// ---- receiver {} ({:?})\n", r.id, r.tr));
    out.push_str(&format!("#[derive(Debug, ::darling::{})]\n", r.tr.derive_name()));
    if !copts.is_empty() {
        if copts.len() > 2 && r.id % 3 == 0 {
            let (a, b) = copts.split_at(1);
            out.push_str(&format!("#[{}({})]\n#[darling({})]\n", attr_word(r.id), a.join(", "), b.join(", ")));
        } else {
            out.push_str(&format!("#[{}({})]\n", attr_word(r.id + 1), copts.join(", ")));
        }
    }
    match &r.shape {
        Shape::Struct(fields) => {
            out.push_str(&format!("pub struct {name}{g} {{\n"));
            for m in &r.magic {
                let (n, t) = magic_field_decl(recvs, r, m);
                let attr = if m.with && m.kind == MagicKind::Data { "#[darling(with = data_passthrough)] " } else { "" };
                out.push_str(&format!("    {attr}pub {n}: {t},\n"));
            }
            if let Some(with) = r.attrs_field {
                if with {
                    // (every third receiver spells the converter exactly like the field it serves)
                    out.push_str(if r.id % 3 == 0 { "    #[darling(with = attrs)] pub attrs: usize,\n" } else { "    #[darling(with = attrs_count)] pub attrs: usize,\n" });
                } else {
                    out.push_str("    pub attrs: Vec<syn::Attribute>,\n");
                }
            }
            for (k, f) in fields.iter().enumerate() {
                out.push_str(&format!("    {}pub {}: {},\n", field_attr(recvs, &r.id.to_string(), f, k), f.rust, field_full_ty(recvs, f)));
            }
            let (gargs, gextra) = generic_parts(r);
            for (a, n, t) in &gextra {
                out.push_str(&format!("    {a}pub {n}: {t},\n"));
            }
            out.push_str("}\n");
            for (k, f) in fields.iter().enumerate() {
                field_helpers(recvs, &r.id.to_string(), f, k, out);
            }
            // Dump
            if g.is_empty() {
            out.push_str(&format!("impl ::vf_support::Dump for {name} {{ fn dump(&self) -> ::vf_support::Value {{ let mut m = ::vf_support::serde_json_map(); "));
            for f in fields {
                out.push_str(&format!("m.insert(String::from(\"{0}\"), ::vf_support::Dump::dump(&self.{0})); ", f.rust));
            }
            for mg in &r.magic {
                let (n, _) = magic_field_decl(recvs, r, mg);
                if mg.kind == MagicKind::Generics && mg.tparam_recv.is_some() {
                    out.push_str(&format!("m.insert(String::from(\"@{n}\"), ::vf_support::dump_tp_generics(&self.{n})); "));
                } else {
                    out.push_str(&format!("m.insert(String::from(\"@{n}\"), ::vf_support::Dump::dump(&self.{n})); "));
                }
            }
            if r.attrs_field.is_some() {
                out.push_str("m.insert(String::from(\"@attrs\"), ::vf_support::Dump::dump(&self.attrs)); ");
            }
            out.push_str(&format!("let mut o = ::vf_support::serde_json_map(); o.insert(String::from(\"{name}\"), ::vf_support::Value::Object(m)); ::vf_support::Value::Object(o) }} }}\n"));
            }
            // constructors with tagged values (only meaningful for receivers without magic fields)
            let can_construct = r.magic.is_empty() && r.attrs_field.is_none();
            if can_construct {
                let ctor = |tag: Option<Tag>| -> String {
                    let mut s = format!("{name} {{ ");
                    for (k, f) in fields.iter().enumerate() {
                        let e = match tag {
                            Some(t) => field_sentinel_expr(recvs, f, t, k),
                            None => "::core::default::Default::default()".to_string(),
                        };
                        s.push_str(&format!("{}: {e}, ", f.rust));
                    }
                    for (_, n, _) in &gextra {
                        s.push_str(&format!("{n}: ::core::default::Default::default(), "));
                    }
                    s.push('}');
                    s
                };
                let dflt = if r.cdefault == Def::Trait { ctor(Some(Tag::ContainerDefault)) } else { ctor(None) };
                out.push_str(&format!("impl{g} ::core::default::Default for {name}{gargs} {{ fn default() -> Self {{ {dflt} }} }}\n"));
                if r.cdefault == Def::Func {
                    out.push_str(&format!("fn cdef_{}() -> {name} {{ {} }}\n", r.id, ctor(Some(Tag::ContainerDefault))));
                }
                if r.from_word {
                    out.push_str(&format!("fn fword_{}() -> ::darling::Result<{name}> {{ Ok({}) }}\n", r.id, ctor(Some(Tag::FromWord))));
                }
                if r.from_none {
                    out.push_str(&format!("fn fnone_{}() -> Option<{name}> {{ Some({}) }}\n", r.id, ctor(Some(Tag::FromNone))));
                }
                if r.from_ident {
                    let src = if r.tr == Trait::Field { "Option<syn::Ident>" } else { "syn::Ident" };
                    out.push_str(&format!("impl From<{src}> for {name} {{ fn from(_: {src}) -> Self {{ {} }} }}\n", ctor(Some(Tag::FromIdent))));
                }
            } else {
                // receivers with magic fields: defaults are expressed through helper fns that build the
                // ordinary fields only; the derive fills the magic ones itself, so only `from_ident` and
                // container defaults need a full value — built from a parsed dummy element
                if r.cdefault == Def::Trait && r.tr == Trait::TypeParam && r.attrs_field.is_none() {
                    // a hand-written fallback instance: tagged values in the ordinary fields, and in the magic
                    // ones something no input ever says
                    let mut s = format!("{name} {{ ");
                    for (k, f) in fields.iter().enumerate() {
                        s.push_str(&format!("{}: {}, ", f.rust, field_sentinel_expr(recvs, f, Tag::ContainerDefault, k)));
                    }
                    for m in &r.magic {
                        let (n, _) = magic_field_decl(recvs, r, m);
                        let v = match m.kind {
                            MagicKind::Ident => "syn::parse_quote!(vf_fallback_ident)",
                            MagicKind::Default => "Some(syn::parse_quote!((u8, u8, u8)))",
                            _ => "::core::default::Default::default()",
                        };
                        s.push_str(&format!("{n}: {v}, "));
                    }
                    s.push('}');
                    out.push_str(&format!("impl ::core::default::Default for {name} {{ fn default() -> Self {{ {s} }} }}\n"));
                } else if r.cdefault != Def::None || r.from_ident {
                    out.push_str(&format!("// (container default / from_ident not generated together with magic fields)\n"));
                }
            }
            if let Some(a) = anchor_field(r) {
                let f = &fields[a];
                if let Ty::Sc(sc) = f.ty {
                    match r.post {
                        Post::Map => out.push_str(&format!("fn cmap_{}(mut v: {name}) -> {name} {{ {} v }}\n", r.id, cmap_stmt(sc, &f.rust))),
                        Post::AndThen => out.push_str(&format!(
                            "fn cand_{}(mut v: {name}) -> ::darling::Result<{name}> {{ if {} {{ return Err(::darling::Error::custom(\"rejected by container and_then\")); }} {} Ok(v) }}\n",
                            r.id,
                            cand_reject_cond(sc, &f.rust),
                            cmap_stmt(sc, &f.rust)
                        )),
                        Post::None => {}
                    }
                }
            }
        }
        Shape::Unit => {
            out.push_str(&format!("pub struct {name};\n"));
            out.push_str(&format!("impl ::vf_support::Dump for {name} {{ fn dump(&self) -> ::vf_support::Value {{ let mut o = ::vf_support::serde_json_map(); o.insert(String::from(\"{name}\"), ::vf_support::Value::Object(::vf_support::serde_json_map())); ::vf_support::Value::Object(o) }} }}\n"));
            out.push_str(&format!("impl ::core::default::Default for {name} {{ fn default() -> Self {{ {name} }} }}\n"));
            if r.from_none {
                out.push_str(&format!("fn fnone_{}() -> Option<{name}> {{ Some(::core::default::Default::default()) }}\n", r.id));
            }
        }
        Shape::Newtype(_) if !g.is_empty() => {
            // generic wrapper: compile-only (the parameter stands for the inner receiver)
            let skip = if r.inner_skip { "#[darling(skip)] " } else { "" };
            out.push_str(&format!("pub struct {name}{g}({skip}pub T);\n"));
        }
        Shape::Newtype(t) if r.tr.element_level() => {
            let skip = if r.inner_skip { "#[darling(skip)] " } else { "" };
            out.push_str(&format!("pub struct {name}({skip}pub {});\n", rust_ty(recvs, t)));
            out.push_str(&format!("impl ::vf_support::Dump for {name} {{ fn dump(&self) -> ::vf_support::Value {{ let mut o = ::vf_support::serde_json_map(); o.insert(String::from(\"{name}\"), ::vf_support::Dump::dump(&self.0)); ::vf_support::Value::Object(o) }} }}\n"));
        }
        Shape::Newtype(t) => {
            let nf = r.newtype_field();
            let fattr = nf.as_ref().map(|f| field_attr(recvs, &r.id.to_string(), f, r.id)).unwrap_or_default();
            out.push_str(&format!("pub struct {name}({fattr}pub {});\n", nf.as_ref().map(|f| field_full_ty(recvs, f)).unwrap_or_else(|| rust_ty(recvs, t))));
            if let Some(f) = &nf {
                field_helpers(recvs, &r.id.to_string(), f, r.id, out);
            }
            if let Ty::Sc(sc) = t {
                // container-level transforms act on the only field (`cmap_stmt` names it `0`)
                match r.post {
                    Post::Map => out.push_str(&format!("fn cmap_{}(mut v: {name}) -> {name} {{ {} v }}\n", r.id, cmap_stmt(*sc, "0"))),
                    Post::AndThen => out.push_str(&format!(
                        "fn cand_{}(mut v: {name}) -> ::darling::Result<{name}> {{ if {} {{ return Err(::darling::Error::custom(\"rejected by container and_then\")); }} {} Ok(v) }}\n",
                        r.id,
                        cand_reject_cond(*sc, "0"),
                        cmap_stmt(*sc, "0")
                    )),
                    Post::None => {}
                }
            }
            out.push_str(&format!("impl ::vf_support::Dump for {name} {{ fn dump(&self) -> ::vf_support::Value {{ let mut o = ::vf_support::serde_json_map(); o.insert(String::from(\"{name}\"), ::vf_support::Dump::dump(&self.0)); ::vf_support::Value::Object(o) }} }}\n"));
            out.push_str(&format!("impl ::core::default::Default for {name} {{ fn default() -> Self {{ {name}(::core::default::Default::default()) }} }}\n"));
            if r.from_none {
                out.push_str(&format!("fn fnone_{}() -> Option<{name}> {{ Some(::core::default::Default::default()) }}\n", r.id));
            }
        }
        Shape::Enum(vars) => {
            out.push_str(&format!("pub enum {name} {{\n"));
            for (vi, v) in vars.iter().enumerate() {
                let mut vo: Vec<String> = vec![];
                if let Some(n) = &v.rename {
                    vo.push(format!("rename = \"{n}\""));
                }
                if v.skip {
                    vo.push("skip".into());
                }
                if v.word {
                    vo.push("word".into());
                }
                if v.word_false {
                    vo.push("word = false".into());
                }
                // (the order options are written in says nothing: `word, skip` is `skip, word`; now and then
                // each option stands in an attribute of its own)
                if (r.id + vi) % 2 == 1 {
                    vo.reverse();
                }
                let attr = if vo.is_empty() {
                    String::new()
                } else if (r.id + vi) % 5 == 3 {
                    vo.iter().map(|o| format!("#[{}({o})] ", attr_word(r.id + vi))).collect::<Vec<_>>().join("")
                } else {
                    format!("#[{}({})] ", attr_word(r.id + vi), vo.join(", "))
                };
                match &v.body {
                    VBody::Unit => out.push_str(&format!("    {attr}{},\n", v.rust)),
                    VBody::Newtype(t) => {
                        let fattr = v.newtype_field().map(|f| field_attr(recvs, &format!("{}v{vi}", r.id), &f, vi)).unwrap_or_default();
                        let vty = v.newtype_field().map(|f| field_full_ty(recvs, &f)).unwrap_or_else(|| rust_ty(recvs, t));
                        out.push_str(&format!("    {attr}{}({fattr}{vty}),\n", v.rust))
                    }
                    VBody::Struct(fs) => {
                        out.push_str(&format!("    {attr}{} {{\n", v.rust));
                        for (k, f) in fs.iter().enumerate() {
                            out.push_str(&format!("        {}{}: {},\n", field_attr(recvs, &format!("{}v{vi}", r.id), f, k), f.rust, field_full_ty(recvs, f)));
                        }
                        out.push_str("    },\n");
                    }
                }
            }
            out.push_str("}\n");
            for (vi, v) in vars.iter().enumerate() {
                if let Some(f) = v.newtype_field() {
                    field_helpers(recvs, &format!("{}v{vi}", r.id), &f, vi, out);
                }
                if let VBody::Struct(fs) = &v.body {
                    for (k, f) in fs.iter().enumerate() {
                        field_helpers(recvs, &format!("{}v{vi}", r.id), f, k, out);
                    }
                }
            }
            out.push_str(&format!("impl ::vf_support::Dump for {name} {{ fn dump(&self) -> ::vf_support::Value {{ let (n, p): (&str, ::vf_support::Value) = match self {{ "));
            for v in vars {
                match &v.body {
                    VBody::Unit => out.push_str(&format!("{name}::{0} => (\"{name}::{0}\", ::vf_support::Value::Null), ", v.rust)),
                    VBody::Newtype(_) => out.push_str(&format!("{name}::{0}(x) => (\"{name}::{0}\", ::vf_support::Dump::dump(x)), ", v.rust)),
                    VBody::Struct(fs) => {
                        let binds: Vec<String> = fs.iter().map(|f| f.rust.clone()).collect();
                        out.push_str(&format!("{name}::{0} {{ {1} }} => (\"{name}::{0}\", {2}), ", v.rust, binds.join(", "), dump_fields(fs, "")));
                    }
                }
            }
            out.push_str("}; let mut o = ::vf_support::serde_json_map(); o.insert(String::from(n), p); ::vf_support::Value::Object(o) } }\n");
            // Default = first variant with zero payload
            let v0 = &vars[0];
            let zero = match &v0.body {
                VBody::Unit => format!("{name}::{}", v0.rust),
                VBody::Newtype(_) => format!("{name}::{}(::core::default::Default::default())", v0.rust),
                VBody::Struct(fs) => format!("{name}::{} {{ {} }}", v0.rust, fs.iter().map(|f| format!("{}: ::core::default::Default::default()", f.rust)).collect::<Vec<_>>().join(", ")),
            };
            out.push_str(&format!("impl ::core::default::Default for {name} {{ fn default() -> Self {{ {zero} }} }}\n"));
            if r.cdefault == Def::Func {
                out.push_str(&format!("fn cdef_{}() -> {name} {{ ::core::default::Default::default() }}\n", r.id));
            }
            if r.from_word {
                out.push_str(&format!("fn fword_{}() -> ::darling::Result<{name}> {{ Ok(::core::default::Default::default()) }}\n", r.id));
            }
            if r.from_none {
                out.push_str(&format!("fn fnone_{}() -> Option<{name}> {{ Some(::core::default::Default::default()) }}\n", r.id));
            }
        }
    }
    out.push('\n');
}

/// the dispatch arm(s) of one receiver
pub fn emit_dispatch(r: &Recv, out: &mut String) {
    if !r.generics.is_empty() {
        return;
    }
    let name = r.name();
    let id = r.id;
    match r.tr {
        Trait::Meta => {
            out.push_str(&format!(
                "        ({id}, \"from_list\") => {{ let items = ::vf_support::parse_list(src)?; Ok(::vf_support::reply(<{name} as ::darling::FromMeta>::from_list(&items), 0)) }}\n"
            ));
            out.push_str(&format!(
                "        ({id}, \"from_meta\") => {{ let m = ::vf_support::parse_meta(src)?; Ok(::vf_support::reply(<{name} as ::darling::FromMeta>::from_meta(&m), 0)) }}\n"
            ));
            out.push_str(&format!("        ({id}, \"from_string\") => Ok(::vf_support::reply(<{name} as ::darling::FromMeta>::from_string(src), 0)),\n"));
            out.push_str(&format!("        ({id}, \"from_word\") => Ok(::vf_support::reply(<{name} as ::darling::FromMeta>::from_word(), 0)),\n"));
            out.push_str(&format!("        ({id}, \"from_none\") => Ok(::vf_support::reply_opt(<{name} as ::darling::FromMeta>::from_none())),\n"));
        }
        Trait::DeriveInput => out.push_str(&format!(
            "        ({id}, \"from_derive_input\") => {{ let di = ::vf_support::parse_derive_input(src)?; Ok(::vf_support::reply(<{name} as ::darling::FromDeriveInput>::from_derive_input(&di), 0)) }}\n"
        )),
        Trait::Field => {
            out.push_str(&format!(
                "        ({id}, \"from_field\") => {{ let b = ::vf_support::parse_field(src)?; Ok(::vf_support::reply(<{name} as ::darling::FromField>::from_field(&b.value), b.shift)) }}\n"
            ));
            out.push_str(&format!(
                "        ({id}, \"from_field_grouped\") => {{ let b = ::vf_support::parse_field_grouped(src)?; Ok(::vf_support::reply(<{name} as ::darling::FromField>::from_field(&b.value), b.shift)) }}\n"
            ));
            out.push_str(&format!(
                "        ({id}, \"from_tuple_field\") => {{ let b = ::vf_support::parse_tuple_field(src)?; Ok(::vf_support::reply(<{name} as ::darling::FromField>::from_field(&b.value), b.shift)) }}\n"
            ));
        }
        Trait::Variant => out.push_str(&format!(
            "        ({id}, \"from_variant\") => {{ let b = ::vf_support::parse_variant(src)?; Ok(::vf_support::reply(<{name} as ::darling::FromVariant>::from_variant(&b.value), b.shift)) }}\n"
        )),
        Trait::TypeParam => out.push_str(&format!(
            "        ({id}, \"from_type_param\") => {{ let b = ::vf_support::parse_type_param(src)?; Ok(::vf_support::reply(<{name} as ::darling::FromTypeParam>::from_type_param(&b.value), b.shift)) }}\n"
        )),
        Trait::Attributes => out.push_str(&format!(
            "        ({id}, \"from_attributes\") => {{ let a = ::vf_support::parse_attrs(src)?; Ok(::vf_support::reply(<{name} as ::darling::FromAttributes>::from_attributes(&a), 0)) }}\n"
        )),
    }
}

pub const PRELUDE: &str = r#"// @generated by the corpus emitter — a shard of receiver programs
#![allow(dead_code, unused_variables, unused_mut, unused_imports, non_snake_case, clippy::all)]

fn lit<T: ::core::default::Default>() -> T { ::core::default::Default::default() }
fn len<T: ::darling::FromMeta>(m: &syn::Meta) -> ::darling::Result<T> { <T as ::darling::FromMeta>::from_meta(m) }
fn item<T: ::darling::FromMeta>(m: &syn::Meta) -> ::darling::Result<T> { <T as ::darling::FromMeta>::from_meta(m) }
fn items<T: ::darling::FromMeta>(m: &syn::Meta) -> ::darling::Result<T> { <T as ::darling::FromMeta>::from_meta(m) }
fn errors<T: ::darling::FromMeta>(m: &syn::Meta) -> ::darling::Result<T> { <T as ::darling::FromMeta>::from_meta(m) }
fn val<T: ::darling::FromMeta>(m: &syn::Meta) -> ::darling::Result<T> { <T as ::darling::FromMeta>::from_meta(m) }
fn value<T: ::darling::FromMeta>(m: &syn::Meta) -> ::darling::Result<T> { <T as ::darling::FromMeta>::from_meta(m) }
fn name<T: ::darling::FromMeta>(m: &syn::Meta) -> ::darling::Result<T> { <T as ::darling::FromMeta>::from_meta(m) }
fn inner<T: ::darling::FromMeta>(m: &syn::Meta) -> ::darling::Result<T> { <T as ::darling::FromMeta>::from_meta(m) }
fn result<T: ::darling::FromMeta>(m: &syn::Meta) -> ::darling::Result<T> { <T as ::darling::FromMeta>::from_meta(m) }
fn meta<T: ::darling::FromMeta>(m: &syn::Meta) -> ::darling::Result<T> { <T as ::darling::FromMeta>::from_meta(m) }
fn field<T: ::darling::FromMeta>(m: &syn::Meta) -> ::darling::Result<T> { <T as ::darling::FromMeta>::from_meta(m) }
fn other<T: ::darling::FromMeta>(m: &syn::Meta) -> ::darling::Result<T> { <T as ::darling::FromMeta>::from_meta(m) }
#[derive(Debug, Default)] pub struct Foreign<T>(pub T);
impl<T: ::vf_support::Dump> ::vf_support::Dump for Foreign<T> { fn dump(&self) -> ::vf_support::Value { ::vf_support::Dump::dump(&self.0) } }
fn attrs_count(attrs: Vec<syn::Attribute>) -> ::darling::Result<usize> { Ok(attrs.len()) }
fn attrs(list: Vec<syn::Attribute>) -> ::darling::Result<usize> { Ok(list.len()) }
fn data_passthrough<V: ::darling::FromVariant, F: ::darling::FromField>(d: &syn::Data) -> ::darling::Result<::darling::ast::Data<V, F>> { ::darling::ast::Data::try_from(d) }
fn gen_none_with<V>(_m: &syn::Meta) -> ::darling::Result<Option<V>> { Ok(None) }
trait FlattenMark { fn mark(self) -> Self; fn rejects(&self) -> bool; }
fn flatten_mark<T: FlattenMark>(v: T) -> T { v.mark() }
fn flatten_rejects<T: FlattenMark>(v: &T) -> bool { v.rejects() }
"#;

/// The same programs for a crate whose only dependency is darling: `syn` is reached through
/// darling's re-export, nothing of the harness is linked, the crate only has to compile.
pub fn emit_shard_darling_only(recvs: &[Recv], ids: &[usize]) -> String {
    let full = emit_shard(recvs, ids);
    let mut out = String::new();
    // The crate also shadows the prelude's container names and constructors (as a module with its own
    // `Vec`, or `use Level::*` bringing a `None` into scope, would): generated code has to reach them
    // through darling's re-exports. Everything the emitter itself writes is spelled with full paths.
    const QUALIFY: [(&str, &str, bool); 12] = [
        ("syn::", "::darling::export::syn::", false),
        ("Option<", "::core::option::Option<", false),
        ("Vec<", "::std::vec::Vec<", false),
        ("String::from(", "::std::string::String::from(", false),
        ("Box::new(", "::std::boxed::Box::new(", false),
        ("Box<", "::std::boxed::Box<", false),
        ("String", "::std::string::String", false),
        ("Some(", "::core::option::Option::Some(", true),
        ("None", "::core::option::Option::None", true),
        ("Ok(", "::core::result::Result::Ok(", true),
        ("Err(", "::core::result::Result::Err(", true),
        ("Default::default()", "::core::default::Default::default()", false),
    ];
    let mut in_enum = false;
    for line in full.lines() {
        if line.starts_with("impl ::vf_support::Dump") || (line.starts_with("impl<") && line.contains("::vf_support::Dump for ")) {
            continue;
        }
        if line.starts_with("#![allow(") {
            // a crate that denies style lints: what the derive adds (locals, helper names) is not the
            // user's spelling and must not be linted as such
            // (`forbid` rather than `deny` for unused variables: generated code cannot silence the lint
            // for itself with an `#[allow]` then - it has to have no unused bindings)
            out.push_str("#![allow(dead_code, unused_mut, unused_imports, clippy::all)]\n#![forbid(unused_variables)]\n#![deny(nonstandard_style)]\n#![allow(non_upper_case_globals)]\n");
            continue;
        }
        if line.starts_with("fn dispatch(") {
            break;
        }
        if line.starts_with("pub enum ") {
            in_enum = true;
        } else if in_enum && line == "}" {
            in_enum = false;
        }
        let mut l = String::new();
        let b = line.as_bytes();
        let mut i = 0;
        let mut in_str = false;
        'outer: while i < line.len() {
            if b[i] == b'"' && (i == 0 || b[i - 1] != b'\\') {
                in_str = !in_str;
            }
            let boundary = i == 0 || !(b[i - 1].is_ascii_alphanumeric() || b[i - 1] == b'_' || b[i - 1] == b':');
            // the name of a variant in an enum declaration stays what it is
            let variant_name_position = in_enum && {
                // nothing but whitespace and whole `#[..]` attributes before it
                let mut depth = 0i32;
                let mut only_attrs = true;
                for ch in line[..i].chars() {
                    match ch {
                        '[' => depth += 1,
                        ']' => depth -= 1,
                        '#' | ' ' => {}
                        _ if depth > 0 => {}
                        _ => only_attrs = false,
                    }
                }
                only_attrs && depth == 0
            };
            if boundary && !in_str && !variant_name_position {
                for (needle, repl, is_constructor) in QUALIFY {
                    // variant names in an enum declaration stay what they are
                    if is_constructor && in_enum {
                        continue;
                    }
                    if line[i..].starts_with(needle) {
                        let end = i + needle.len();
                        let ends_word = needle.ends_with(|c: char| !(c.is_alphanumeric() || c == '_')) || end >= line.len() || !(b[end].is_ascii_alphanumeric() || b[end] == b'_');
                        if ends_word {
                            l.push_str(repl);
                            i = end;
                            continue 'outer;
                        }
                    }
                }
            }
            let ch = line[i..].chars().next().unwrap();
            l.push(ch);
            i += ch.len_utf8();
        }
        out.push_str(&l);
        out.push('\n');
    }
    out.push_str("#[allow(non_camel_case_types)]\nmod hostile_prelude {\n    pub struct Vec;\n    pub struct Option;\n    pub struct Result;\n    pub struct String;\n    pub struct Box;\n    pub struct Some;\n    pub struct None;\n    pub struct Ok;\n    pub struct Err;\n}\nuse hostile_prelude::*;\n");
    // receivers written by a macro_rules! macro: the field types and converter paths are macro
    // arguments, i.e. tokens of another syntax context than the `#[derive]` itself; generated locals
    // must not inherit that context
    out.push_str(MACRO_MADE);
    out.push_str("fn main() {}\n");
    out
}

const MACRO_MADE: &str = r#"
fn mm_with(m: &::darling::export::syn::Meta) -> ::darling::Result<u8> { <u8 as ::darling::FromMeta>::from_meta(m) }
fn mm_attrs(a: ::std::vec::Vec<::darling::export::syn::Attribute>) -> ::darling::Result<usize> { ::core::result::Result::Ok(a.len()) }
macro_rules! mm_meta { ($name:ident, $ty:ident, $with:path) => {
    #[derive(::darling::FromMeta)] pub struct $name { #[darling(with = $with)] pub a: $ty, pub b: $ty, #[darling(multiple)] pub c: ::std::vec::Vec<$ty> }
}; }
mm_meta!(MacroMadeMeta, u8, mm_with);
macro_rules! mm_enum { ($name:ident, $($ty:tt)*) => {
    #[derive(::darling::FromMeta)] pub enum $name { Plain, Wrapped($($ty)*), Fields { #[darling(with = mm_with)] x: u8, y: $($ty)* } }
}; }
mm_enum!(MacroMadeEnum, ::core::option::Option<u8>);
macro_rules! mm_input { ($name:ident, $($ty:tt)*) => {
    #[derive(::darling::FromDeriveInput)] #[darling(attributes(x), forward_attrs)] pub struct $name { pub ident: ::darling::export::syn::Ident, pub f: $($ty)*, #[darling(with = mm_attrs)] pub attrs: usize }
}; }
mm_input!(MacroMadeInput, ::core::option::Option<u8>);
macro_rules! mm_field { ($name:ident, $ty:ident, $attrs:path) => {
    #[derive(::darling::FromField)] #[darling(attributes(x), forward_attrs(doc))] pub struct $name { pub f: $ty, #[darling(with = $attrs)] pub attrs: usize }
}; }
mm_field!(MacroMadeField, bool, mm_attrs);
"#;

/// Source of one shard: receivers `ids` plus everything they reference.
pub fn emit_shard(recvs: &[Recv], ids: &[usize]) -> String {
    let mut out = String::from(PRELUDE);
    // transitive closure over nested receivers
    let mut need: Vec<usize> = vec![];
    fn visit(recvs: &[Recv], id: usize, need: &mut Vec<usize>) {
        if need.contains(&id) {
            return;
        }
        need.push(id);
        let r = &recvs[id];
        let mut tys: Vec<&Ty> = vec![];
        match &r.shape {
            Shape::Struct(fs) => tys.extend(fs.iter().map(|f| &f.ty)),
            Shape::Unit => {}
            Shape::Newtype(t) => tys.push(t),
            Shape::Enum(vs) => {
                for v in vs {
                    match &v.body {
                        VBody::Unit => {}
                        VBody::Newtype(t) => tys.push(t),
                        VBody::Struct(fs) => tys.extend(fs.iter().map(|f| &f.ty)),
                    }
                }
            }
        }
        for t in tys {
            let mut t = t;
            loop {
                match t {
                    Ty::Opt(i) | Ty::Map(i) => t = i,
                    Ty::Recv(i) | Ty::BoxRecv(i) => {
                        visit(recvs, *i, need);
                        break;
                    }
                    _ => break,
                }
            }
        }
        for m in &r.magic {
            if let Some(i) = m.variant_recv {
                visit(recvs, i, need);
            }
            if let Some(i) = m.field_recv {
                visit(recvs, i, need);
            }
            if let Some(i) = m.tparam_recv {
                visit(recvs, i, need);
            }
        }
    }
    for id in ids {
        visit(recvs, *id, &mut need);
    }
    need.sort();
    for id in &need {
        emit_recv(recvs, &recvs[*id], &mut out);
        // FlattenMark for struct receivers that can be flatten members: mark the anchor (or nothing)
        let r = &recvs[*id];
        if let (Trait::Meta, Shape::Newtype(Ty::Recv(_)), true) = (r.tr, &r.shape, r.generics.is_empty()) {
            // a newtype around a struct receiver passes the mark on
            out.push_str(&format!("impl FlattenMark for {0} {{ fn mark(self) -> Self {{ {0}(self.0.mark()) }} fn rejects(&self) -> bool {{ self.0.rejects() }} }}\n", r.name()));
        }
        if r.tr == Trait::Meta && matches!(r.shape, Shape::Struct(_)) && r.generics.is_empty() {
            let stmt = match anchor_field(r) {
                Some(a) => match r.fields()[a].ty {
                    Ty::Sc(Sc::I64) => format!("self.{} += 40_000_000;", r.fields()[a].rust),
                    Ty::Sc(Sc::Str) => format!("self.{0} = format!(\"fm({{}})\", self.{0});", r.fields()[a].rust),
                    _ => String::new(),
                },
                None => String::new(),
            };
            let cond = match anchor_field(r) {
                Some(a) => match r.fields()[a].ty {
                    Ty::Sc(Sc::I64) => format!("self.{} == 42", r.fields()[a].rust),
                    Ty::Sc(Sc::Str) => format!("self.{} == \"x\"", r.fields()[a].rust),
                    _ => "false".to_string(),
                },
                None => "false".to_string(),
            };
            out.push_str(&format!("impl FlattenMark for {} {{ fn mark(mut self) -> Self {{ {stmt} self }} fn rejects(&self) -> bool {{ {cond} }} }}\n", r.name()));
            out.push_str(&format!("impl FlattenMark for Box<{}> {{ fn mark(self) -> Self {{ Box::new((*self).mark()) }} fn rejects(&self) -> bool {{ (**self).rejects() }} }}\n\n", r.name()));
        }
    }
    out.push_str("fn dispatch(recv: usize, entry: &str, src: &str) -> Result<::vf_support::Value, String> {\n    match (recv, entry) {\n");
    for id in &need {
        emit_dispatch(&recvs[*id], &mut out);
    }
    out.push_str("        _ => Err(format!(\"no entry {entry} for receiver {recv}\")),\n    }\n}\n\nfn main() { ::vf_support::drive(dispatch); }\n");
    out
}
