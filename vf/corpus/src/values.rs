//! Canonical values and the tagged sentinels that make every value source distinguishable:
//! the same definitions are used to *emit* Rust expressions and to *predict* dumped values.

use crate::spec::*;
use serde_json::{json, Value};

#[derive(Clone, Copy, PartialEq, Eq, Debug)]
pub enum Tag {
    /// field-level `default = fn`
    FieldDefault,
    /// container-level default (Default impl or fn)
    ContainerDefault,
    FromIdent,
    FromWord,
    FromNone,
}

impl Tag {
    fn base_i64(self) -> i64 {
        match self {
            Tag::FieldDefault => 9000,
            Tag::ContainerDefault => 7000,
            Tag::FromIdent => 5000,
            Tag::FromWord => 3000,
            Tag::FromNone => 1000,
        }
    }
    fn base_u8(self) -> u8 {
        match self {
            Tag::FieldDefault => 90,
            Tag::ContainerDefault => 70,
            Tag::FromIdent => 50,
            Tag::FromWord => 30,
            Tag::FromNone => 10,
        }
    }
    fn text(self) -> &'static str {
        match self {
            Tag::FieldDefault => "fd",
            Tag::ContainerDefault => "cd",
            Tag::FromIdent => "fi",
            Tag::FromWord => "fw",
            Tag::FromNone => "fn",
        }
    }
    fn ch(self) -> char {
        match self {
            Tag::FieldDefault => 'f',
            Tag::ContainerDefault => 'c',
            Tag::FromIdent => 'i',
            Tag::FromWord => 'w',
            Tag::FromNone => 'n',
        }
    }
}

pub fn rust_ty(recvs: &[Recv], ty: &Ty) -> String {
    match ty {
        Ty::Sc(Sc::Bool) => "bool".into(),
        Ty::Sc(Sc::U8) => "u8".into(),
        Ty::Sc(Sc::I64) => "i64".into(),
        Ty::Sc(Sc::Str) => "String".into(),
        Ty::Sc(Sc::Char) => "char".into(),
        Ty::Opt(t) => format!("Option<{}>", rust_ty(recvs, t)),
        Ty::Map(t) => format!("::std::collections::HashMap<String, {}>", rust_ty(recvs, t)),
        Ty::PathList => "::darling::util::PathList".into(),
        Ty::Bytes => "Vec<u8>".into(),
        Ty::Recv(id) => recvs[*id].name(),
        Ty::BoxRecv(id) => format!("Box<{}>", recvs[*id].name()),
    }
}

/// `Default::default()` of a field type, as dumped
pub fn zero(recvs: &[Recv], ty: &Ty) -> Value {
    match ty {
        Ty::Sc(Sc::Bool) => json!(false),
        Ty::Sc(Sc::U8) | Ty::Sc(Sc::I64) => json!(0),
        Ty::Sc(Sc::Str) => json!(""),
        Ty::Sc(Sc::Char) => json!({"char": "\u{0}"}),
        Ty::Opt(_) => Value::Null,
        Ty::Map(_) => json!({"map": {}}),
        Ty::PathList => json!({"paths": []}),
        Ty::Bytes => json!([]),
        Ty::Recv(id) | Ty::BoxRecv(id) => default_value(recvs, &recvs[*id]),
    }
}

/// tagged value of a field type, as dumped
pub fn sentinel(recvs: &[Recv], ty: &Ty, tag: Tag, k: usize) -> Value {
    match ty {
        Ty::Sc(Sc::Bool) => json!(true),
        Ty::Sc(Sc::U8) => json!(tag.base_u8() as usize + k % 10),
        Ty::Sc(Sc::I64) => json!(tag.base_i64() + k as i64),
        Ty::Sc(Sc::Str) => json!(format!("{}#{k}", tag.text())),
        Ty::Sc(Sc::Char) => json!({"char": tag.ch().to_string()}),
        Ty::Opt(t) => json!({"some": sentinel(recvs, t, tag, k)}),
        Ty::Map(t) => {
            let mut m = serde_json::Map::new();
            m.insert(format!("{}#{k}", tag.text()), sentinel(recvs, t, tag, k));
            json!({"map": Value::Object(m)})
        }
        Ty::PathList => json!({"paths": []}),
        Ty::Bytes => json!([tag.base_u8() as usize + k % 10, 1]),
        Ty::Recv(id) | Ty::BoxRecv(id) => default_value(recvs, &recvs[*id]),
    }
}

pub fn sentinel_expr(recvs: &[Recv], ty: &Ty, tag: Tag, k: usize) -> String {
    match ty {
        Ty::Sc(Sc::Bool) => "true".into(),
        Ty::Sc(Sc::U8) => format!("{}u8", tag.base_u8() as usize + k % 10),
        Ty::Sc(Sc::I64) => format!("{}i64", tag.base_i64() + k as i64),
        Ty::Sc(Sc::Str) => format!("String::from(\"{}#{k}\")", tag.text()),
        Ty::Sc(Sc::Char) => format!("'{}'", tag.ch()),
        Ty::Opt(t) => format!("Some({})", sentinel_expr(recvs, t, tag, k)),
        Ty::Map(t) => format!("{{ let mut m = ::std::collections::HashMap::new(); m.insert(String::from(\"{}#{k}\"), {}); m }}", tag.text(), sentinel_expr(recvs, t, tag, k)),
        Ty::Bytes => format!("vec![{}u8, 1u8]", tag.base_u8() as usize + k % 10),
        Ty::PathList | Ty::Recv(_) => "::core::default::Default::default()".into(),
        Ty::BoxRecv(_) => "Box::new(::core::default::Default::default())".into(),
    }
}

pub fn field_full_ty(recvs: &[Recv], f: &Field) -> String {
    if f.foreign {
        return format!("Foreign<{}>", rust_ty(recvs, &f.ty));
    }
    if f.multiple {
        format!("Vec<{}>", rust_ty(recvs, &f.ty))
    } else {
        rust_ty(recvs, &f.ty)
    }
}

pub fn field_zero(recvs: &[Recv], f: &Field) -> Value {
    if f.multiple {
        json!([])
    } else {
        zero(recvs, &f.ty)
    }
}

pub fn field_sentinel(recvs: &[Recv], f: &Field, tag: Tag, k: usize) -> Value {
    if f.multiple {
        json!([sentinel(recvs, &f.ty, tag, k)])
    } else {
        sentinel(recvs, &f.ty, tag, k)
    }
}

pub fn field_sentinel_expr(recvs: &[Recv], f: &Field, tag: Tag, k: usize) -> String {
    if f.foreign {
        return format!("Foreign({})", sentinel_expr(recvs, &f.ty, tag, k));
    }
    if f.multiple {
        format!("vec![{}]", sentinel_expr(recvs, &f.ty, tag, k))
    } else {
        sentinel_expr(recvs, &f.ty, tag, k)
    }
}

/// dumped value of a struct receiver whose every ordinary field holds `f(field index)`
pub fn struct_value(r: &Recv, mut f: impl FnMut(usize, &Field) -> Value) -> Value {
    let mut m = serde_json::Map::new();
    for (k, fld) in r.fields().iter().enumerate() {
        m.insert(fld.rust.clone(), f(k, fld));
    }
    let mut outer = serde_json::Map::new();
    outer.insert(r.name(), Value::Object(m));
    Value::Object(outer)
}

/// what `<R as Default>::default()` dumps as
pub fn default_value(recvs: &[Recv], r: &Recv) -> Value {
    match &r.shape {
        Shape::Struct(_) => {
            if r.cdefault == Def::Trait {
                tagged_struct(recvs, r, Tag::ContainerDefault)
            } else {
                struct_value(r, |_, f| field_zero(recvs, f))
            }
        }
        Shape::Enum(vs) => enum_zero(recvs, r, &vs[0]),
        Shape::Unit => struct_value(r, |_, f| field_zero(recvs, f)),
        Shape::Newtype(t) => newtype_value(r, zero(recvs, t)),
    }
}

pub fn newtype_value(r: &Recv, inner: Value) -> Value {
    let mut outer = serde_json::Map::new();
    outer.insert(r.name(), inner);
    Value::Object(outer)
}

pub fn tagged_struct(recvs: &[Recv], r: &Recv, tag: Tag) -> Value {
    struct_value(r, |k, f| field_sentinel(recvs, f, tag, k))
}

pub fn enum_value(r: &Recv, v: &Variant, payload: Value) -> Value {
    let mut outer = serde_json::Map::new();
    outer.insert(format!("{}::{}", r.name(), v.rust), payload);
    Value::Object(outer)
}

pub fn enum_zero(recvs: &[Recv], r: &Recv, v: &Variant) -> Value {
    let payload = match &v.body {
        VBody::Unit => Value::Null,
        VBody::Newtype(t) => zero(recvs, t),
        VBody::Struct(fs) => {
            let mut m = serde_json::Map::new();
            for f in fs {
                m.insert(f.rust.clone(), field_zero(recvs, f));
            }
            Value::Object(m)
        }
    };
    enum_value(r, v, payload)
}

// ---- the tagged transforms -------------------------------------------------------------------

/// custom `with` converter: the type's own conversion followed by a visible wrapper
pub fn apply_with(sc: Sc, v: Value) -> Value {
    match sc {
        Sc::I64 => json!(v.as_i64().unwrap_or(0) + 1000),
        Sc::U8 => json!(v.as_u64().unwrap_or(0) ^ 0x40),
        Sc::Str => json!(format!("w({})", v.as_str().unwrap_or(""))),
        _ => v,
    }
}

pub fn with_body(sc: Sc) -> &'static str {
    match sc {
        Sc::I64 => "v + 1000",
        Sc::U8 => "v ^ 0x40",
        Sc::Str => "format!(\"w({})\", v)",
        _ => "v",
    }
}

pub fn apply_map(sc: Sc, v: Value) -> Value {
    match sc {
        Sc::I64 => json!(v.as_i64().unwrap_or(0) + 100000),
        Sc::U8 => json!(v.as_u64().unwrap_or(0) ^ 0x80),
        Sc::Str => json!(format!("m({})", v.as_str().unwrap_or(""))),
        _ => v,
    }
}

pub fn map_body(sc: Sc) -> &'static str {
    match sc {
        Sc::I64 => "v + 100000",
        Sc::U8 => "v ^ 0x80",
        Sc::Str => "format!(\"m({})\", v)",
        _ => "v",
    }
}

/// and_then rejects one sentinel input per type
pub fn and_then_rejects(sc: Sc, v: &Value) -> bool {
    match sc {
        Sc::I64 => v.as_i64() == Some(666),
        Sc::U8 => v.as_u64() == Some(66),
        Sc::Str => v.as_str() == Some("reject"),
        _ => false,
    }
}

pub fn and_then_reject_cond(sc: Sc) -> &'static str {
    match sc {
        Sc::I64 => "v == 666",
        Sc::U8 => "v == 66",
        Sc::Str => "v == \"reject\"",
        _ => "false",
    }
}

pub fn apply_cmap(sc: Sc, v: Value) -> Value {
    match sc {
        Sc::I64 => json!(v.as_i64().unwrap_or(0) + 5_000_000),
        Sc::Str => json!(format!("cm({})", v.as_str().unwrap_or(""))),
        _ => v,
    }
}

pub fn cmap_stmt(sc: Sc, field: &str) -> String {
    match sc {
        Sc::I64 => format!("v.{field} += 5_000_000;"),
        Sc::Str => format!("v.{field} = format!(\"cm({{}})\", v.{field});"),
        _ => String::new(),
    }
}

pub fn cand_rejects(sc: Sc, v: &Value) -> bool {
    match sc {
        Sc::I64 => v.as_i64() == Some(777),
        Sc::Str => v.as_str() == Some("creject"),
        _ => false,
    }
}

pub fn cand_reject_cond(sc: Sc, field: &str) -> String {
    match sc {
        Sc::I64 => format!("v.{field} == 777"),
        Sc::Str => format!("v.{field} == \"creject\""),
        _ => "false".into(),
    }
}
