//! Runtime support for generated receiver crates: canonical dumping of values, the reply
//! format of the driver protocol, and construction of syn inputs from source text.

pub use serde_json::{json, Value};
use std::collections::HashMap;

pub fn serde_json_map() -> serde_json::Map<String, Value> {
    serde_json::Map::new()
}

pub trait Dump {
    fn dump(&self) -> Value;
}

macro_rules! dump_num {
    ($($t:ty),*) => { $(impl Dump for $t { fn dump(&self) -> Value { json!(*self) } })* };
}
dump_num!(u8, u16, u32, u64, i8, i16, i32, i64, usize, bool);

impl Dump for String {
    fn dump(&self) -> Value {
        json!(self)
    }
}
impl Dump for char {
    fn dump(&self) -> Value {
        json!({ "char": self.to_string() })
    }
}
impl Dump for () {
    fn dump(&self) -> Value {
        json!("unit")
    }
}
impl<T: Dump> Dump for Option<T> {
    fn dump(&self) -> Value {
        match self {
            None => Value::Null,
            Some(v) => json!({ "some": v.dump() }),
        }
    }
}
impl<T: Dump> Dump for Vec<T> {
    fn dump(&self) -> Value {
        Value::Array(self.iter().map(|v| v.dump()).collect())
    }
}
impl<T: Dump> Dump for Box<T> {
    fn dump(&self) -> Value {
        (**self).dump()
    }
}
impl<T: Dump> Dump for HashMap<String, T> {
    fn dump(&self) -> Value {
        let mut m = serde_json::Map::new();
        for (k, v) in self {
            m.insert(k.clone(), v.dump());
        }
        json!({ "map": Value::Object(m) })
    }
}
impl<T: Dump> Dump for darling::util::SpannedValue<T> {
    fn dump(&self) -> Value {
        json!({ "spanned": (**self).dump() })
    }
}
impl<T: Dump, O: quote::ToTokens> Dump for darling::util::WithOriginal<T, O> {
    fn dump(&self) -> Value {
        json!({ "parsed": self.parsed.dump(), "original": canon_of(&self.original) })
    }
}
impl<T: Dump> Dump for darling::Result<T> {
    fn dump(&self) -> Value {
        match self {
            Ok(v) => json!({ "ok": v.dump() }),
            Err(e) => json!({ "err": error_json(e, 0) }),
        }
    }
}

macro_rules! dump_tokens {
    ($($t:ty),* $(,)?) => { $(impl Dump for $t { fn dump(&self) -> Value { json!({"tokens": canon_of(self)}) } })* };
}
dump_tokens!(syn::Ident, syn::Visibility, syn::Expr, syn::Attribute, syn::Path, syn::TypeParamBound, syn::Field, syn::Variant, syn::WhereClause, syn::GenericParam, syn::Meta, syn::TypeParam, syn::LitStr);

/// A type prints like the type inside its invisible group (what a `$t:ty` fragment of `macro_rules!`
/// leaves around it), but it is not the same value: the group is shown.
impl Dump for syn::Type {
    fn dump(&self) -> Value {
        match self {
            syn::Type::Group(g) => json!({ "group": g.elem.dump() }),
            _ => json!({"tokens": canon_of(self)}),
        }
    }
}

impl Dump for darling::util::PathList {
    fn dump(&self) -> Value {
        json!({ "paths": self.iter().map(canon_of).collect::<Vec<_>>() })
    }
}

/// (syn prints nothing for a `where` without predicates; the receiver was still handed a clause)
fn where_text(w: &Option<syn::WhereClause>) -> String {
    match w {
        None => String::new(),
        Some(w) if w.predicates.is_empty() => canon_of(&w.where_token),
        Some(w) => canon_of(w),
    }
}

impl Dump for syn::Generics {
    fn dump(&self) -> Value {
        json!({ "tokens": canon_of(self), "where": where_text(&self.where_clause) })
    }
}

impl Dump for darling::ast::Generics<darling::ast::GenericParam> {
    fn dump(&self) -> Value {
        let mut g = syn::Generics::default();
        for p in &self.params {
            g.params.push(match p {
                darling::ast::GenericParam::Type(t) => syn::GenericParam::Type(t.clone()),
                darling::ast::GenericParam::Lifetime(l) => syn::GenericParam::Lifetime(l.clone()),
                darling::ast::GenericParam::Const(c) => syn::GenericParam::Const(c.clone()),
            });
        }
        if !g.params.is_empty() {
            g.lt_token = Some(Default::default());
            g.gt_token = Some(Default::default());
        }
        g.where_clause = self.where_clause.clone();
        g.dump()
    }
}

/// generics whose type parameters were read by a derived FromTypeParam receiver
pub fn dump_tp_generics<T: Dump>(g: &darling::ast::Generics<darling::ast::GenericParam<T>>) -> Value {
    let params: Vec<Value> = g
        .params
        .iter()
        .map(|p| match p {
            darling::ast::GenericParam::Type(t) => json!({ "type": t.dump() }),
            darling::ast::GenericParam::Lifetime(l) => json!({ "lifetime": canon_of(l) }),
            darling::ast::GenericParam::Const(c) => json!({ "const": canon_of(c) }),
        })
        .collect();
    json!({ "params": params, "where": where_text(&g.where_clause) })
}

impl<V: Dump, F: Dump> Dump for darling::ast::Data<V, F> {
    fn dump(&self) -> Value {
        match self {
            darling::ast::Data::Enum(vs) => json!({ "enum": vs.iter().map(|v| v.dump()).collect::<Vec<_>>() }),
            darling::ast::Data::Struct(f) => json!({ "struct": f.dump() }),
        }
    }
}
impl<F: Dump> Dump for darling::ast::Fields<F> {
    fn dump(&self) -> Value {
        json!({ "style": format!("{:?}", self.style), "fields": self.fields.iter().map(|f| f.dump()).collect::<Vec<_>>() })
    }
}

/// Spacing-insensitive canonical token rendering (invisible groups flattened).
pub fn canon(ts: proc_macro2::TokenStream) -> String {
    use proc_macro2::{Delimiter, TokenTree};
    let mut out = String::new();
    fn push(ts: proc_macro2::TokenStream, out: &mut String) {
        for tt in ts {
            match tt {
                TokenTree::Group(g) => {
                    let (o, c) = match g.delimiter() {
                        Delimiter::Parenthesis => ("(", ")"),
                        Delimiter::Brace => ("{", "}"),
                        Delimiter::Bracket => ("[", "]"),
                        Delimiter::None => ("", ""),
                    };
                    if !o.is_empty() {
                        out.push_str(o);
                        out.push(' ');
                    }
                    push(g.stream(), out);
                    if !c.is_empty() {
                        out.push_str(c);
                        out.push(' ');
                    }
                }
                TokenTree::Punct(p) => {
                    out.push(p.as_char());
                    out.push(' ');
                }
                TokenTree::Ident(i) => {
                    out.push_str(&i.to_string());
                    out.push(' ');
                }
                TokenTree::Literal(l) => {
                    out.push_str(&l.to_string());
                    out.push(' ');
                }
            }
        }
    }
    push(ts, &mut out);
    out
}

pub fn canon_of<T: quote::ToTokens>(t: &T) -> String {
    canon(t.to_token_stream())
}

pub fn span_json(s: proc_macro2::Span) -> Value {
    let r = s.byte_range();
    if r.start == 0 && r.end == 0 {
        Value::Null
    } else {
        json!([r.start, r.end])
    }
}

fn shifted(s: proc_macro2::Span, shift: usize) -> Value {
    let r = s.byte_range();
    if r.start == 0 && r.end == 0 {
        Value::Null
    } else {
        json!([r.start as i64 - shift as i64, r.end as i64 - shift as i64])
    }
}

/// The observable content of an error: count, flattened leaves (Display, span), and the
/// diagnostics the error turns into (message + span of the compile_error! tokens).
pub fn error_json(e: &darling::Error, shift: usize) -> Value {
    let len = e.len();
    let top_span = e.explicit_span().map(|s| shifted(s, shift)).unwrap_or(Value::Null);
    let leaves: Vec<Value> = e
        .clone()
        .flatten()
        .into_iter()
        .map(|l| json!({ "msg": l.to_string(), "span": l.explicit_span().map(|s| shifted(s, shift)).unwrap_or(Value::Null) }))
        .collect();
    let diags: Vec<Value> = syn::Error::from(e.clone())
        .into_iter()
        .map(|d| json!({ "msg": d.to_string(), "span": shifted(d.span(), shift) }))
        .collect();
    json!({ "len": len, "display": e.to_string(), "top_span": top_span, "leaves": leaves, "diags": diags })
}

pub fn reply<T: Dump>(r: darling::Result<T>, shift: usize) -> Value {
    match r {
        Ok(v) => json!({ "ok": v.dump() }),
        Err(e) => json!({ "err": error_json(&e, shift) }),
    }
}

pub fn reply_opt<T: Dump>(r: Option<T>) -> Value {
    match r {
        Some(v) => json!({ "ok": { "some": v.dump() } }),
        None => json!({ "ok": Value::Null }),
    }
}

// ---- building inputs from text -------------------------------------------------------------

pub struct Built<T> {
    pub value: T,
    /// number of bytes the harness put in front of the user's text
    pub shift: usize,
}

pub fn parse_meta(src: &str) -> Result<syn::Meta, String> {
    syn::parse_str::<syn::Meta>(src).map_err(|e| e.to_string())
}

pub fn parse_list(src: &str) -> Result<Vec<darling::ast::NestedMeta>, String> {
    let ts: proc_macro2::TokenStream = syn::parse_str(src).map_err(|e| e.to_string())?;
    darling::ast::NestedMeta::parse_meta_list(ts).map_err(|e| e.to_string())
}

pub fn parse_derive_input(src: &str) -> Result<syn::DeriveInput, String> {
    syn::parse_str::<syn::DeriveInput>(src).map_err(|e| e.to_string())
}

pub const FIELD_PREFIX: &str = "struct __S { ";
pub fn parse_field(src: &str) -> Result<Built<syn::Field>, String> {
    let text = format!("{FIELD_PREFIX}{src} }}");
    let di = syn::parse_str::<syn::DeriveInput>(&text).map_err(|e| e.to_string())?;
    match di.data {
        syn::Data::Struct(s) => match s.fields {
            syn::Fields::Named(n) => n.named.into_iter().next().map(|f| Built { value: f, shift: FIELD_PREFIX.len() }).ok_or_else(|| "no field".to_string()),
            _ => Err("not named".into()),
        },
        _ => Err("not a struct".into()),
    }
}

/// the same field with its whole type inside an invisible group, as `$t:ty` hands it over
pub fn parse_field_grouped(src: &str) -> Result<Built<syn::Field>, String> {
    let mut b = parse_field(src)?;
    let ty = b.value.ty.clone();
    b.value.ty = syn::Type::Group(syn::TypeGroup { group_token: syn::token::Group { span: syn::spanned::Spanned::span(&ty) }, elem: Box::new(ty) });
    Ok(b)
}

pub const TUPLE_FIELD_PREFIX: &str = "struct __S(";
pub fn parse_tuple_field(src: &str) -> Result<Built<syn::Field>, String> {
    let text = format!("{TUPLE_FIELD_PREFIX}{src});");
    let di = syn::parse_str::<syn::DeriveInput>(&text).map_err(|e| e.to_string())?;
    match di.data {
        syn::Data::Struct(s) => match s.fields {
            syn::Fields::Unnamed(n) => n.unnamed.into_iter().next().map(|f| Built { value: f, shift: TUPLE_FIELD_PREFIX.len() }).ok_or_else(|| "no field".to_string()),
            _ => Err("not unnamed".into()),
        },
        _ => Err("not a struct".into()),
    }
}

pub const VARIANT_PREFIX: &str = "enum __E { ";
pub fn parse_variant(src: &str) -> Result<Built<syn::Variant>, String> {
    let text = format!("{VARIANT_PREFIX}{src} }}");
    let di = syn::parse_str::<syn::DeriveInput>(&text).map_err(|e| e.to_string())?;
    match di.data {
        syn::Data::Enum(e) => e.variants.into_iter().next().map(|v| Built { value: v, shift: VARIANT_PREFIX.len() }).ok_or_else(|| "no variant".to_string()),
        _ => Err("not an enum".into()),
    }
}

pub const TYPE_PARAM_PREFIX: &str = "struct __S<";
pub fn parse_type_param(src: &str) -> Result<Built<syn::TypeParam>, String> {
    let text = format!("{TYPE_PARAM_PREFIX}{src}>;");
    let di = syn::parse_str::<syn::DeriveInput>(&text).map_err(|e| e.to_string())?;
    match di.generics.params.into_iter().next() {
        Some(syn::GenericParam::Type(t)) => Ok(Built { value: t, shift: TYPE_PARAM_PREFIX.len() }),
        _ => Err("no type param".into()),
    }
}

/// attributes only: `#[a(..)] #[b]` followed by nothing
pub fn parse_attrs(src: &str) -> Result<Vec<syn::Attribute>, String> {
    let text = format!("{src} struct __S;");
    let di = syn::parse_str::<syn::DeriveInput>(&text).map_err(|e| e.to_string())?;
    Ok(di.attrs)
}

// ---- the driver loop ---------------------------------------------------------------------------

thread_local! {
    static LAST_PANIC: std::cell::RefCell<Option<(String, String)>> = const { std::cell::RefCell::new(None) };
}

pub type Dispatch = fn(usize, &str, &str) -> Result<Value, String>;

/// Line protocol on stdin/stdout: {"recv":n,"entry":"..","src":".."} -> reply JSON.
pub fn drive(dispatch: Dispatch) {
    use std::io::{BufRead, Write};
    std::panic::set_hook(Box::new(|info| {
        let loc = info.location().map(|l| format!("{}:{}", l.file(), l.line())).unwrap_or_default();
        let msg = if let Some(s) = info.payload().downcast_ref::<&str>() {
            s.to_string()
        } else if let Some(s) = info.payload().downcast_ref::<String>() {
            s.clone()
        } else {
            "<non-string panic>".into()
        };
        LAST_PANIC.with(|c| *c.borrow_mut() = Some((msg, loc)));
    }));
    let stdin = std::io::stdin();
    let stdout = std::io::stdout();
    let mut n = 0u64;
    for line in stdin.lock().lines() {
        let Ok(line) = line else { break };
        if line.trim().is_empty() {
            continue;
        }
        n += 1;
        if n % 256 == 0 {
            proc_macro2::extra::invalidate_current_thread_spans();
        }
        let req: Value = match serde_json::from_str(&line) {
            Ok(v) => v,
            Err(e) => {
                let mut o = stdout.lock();
                let _ = writeln!(o, "{}", json!({"bad_request": e.to_string()}));
                let _ = o.flush();
                continue;
            }
        };
        let recv = req["recv"].as_u64().unwrap_or(0) as usize;
        let entry = req["entry"].as_str().unwrap_or("").to_string();
        let src = req["src"].as_str().unwrap_or("").to_string();
        let res = std::panic::catch_unwind(std::panic::AssertUnwindSafe(|| dispatch(recv, &entry, &src)));
        let out = match res {
            Ok(Ok(v)) => v,
            Ok(Err(e)) => json!({ "unparsed": e }),
            Err(_) => {
                let (msg, loc) = LAST_PANIC.with(|c| c.borrow_mut().take()).unwrap_or_default();
                json!({ "panic": { "msg": msg, "at": loc } })
            }
        };
        let mut o = stdout.lock();
        let _ = writeln!(o, "{}", out);
        let _ = o.flush();
    }
}
